(* HttpProofs.v — machine-checked theorems about HttpModel (properties C13, C14). *)
Require Import KV.Base KV.HttpModel.
Open Scope Z_scope.

(* ================================================================== *)
(** * Part A — the capturing writer (TASK item 4)                      *)
(* ================================================================== *)

(* ---- field-level behaviour of the primitive steps ---- *)

Lemma is_info_200 : is_info 200 = false. Proof. reflexivity. Qed.
Lemma is_info_101 : is_info 101 = false. Proof. reflexivity. Qed.

Lemma cap_capture_streamed c n t : c_streamed (cap_capture c n t) = c_streamed c.
Proof.
  unfold cap_capture.
  destruct (c_streamed c || c_toolarge c || (n =? 0)); [reflexivity|].
  destruct (negb (c_limit c)); [reflexivity|].
  destruct (c_maxbody c - c_buflen c <=? 0); [reflexivity|].
  destruct (c_maxbody c - c_buflen c <? n); reflexivity.
Qed.
Lemma cap_capture_wrote c n t : c_wrote (cap_capture c n t) = c_wrote c.
Proof.
  unfold cap_capture.
  destruct (c_streamed c || c_toolarge c || (n =? 0)); [reflexivity|].
  destruct (negb (c_limit c)); [reflexivity|].
  destruct (c_maxbody c - c_buflen c <=? 0); [reflexivity|].
  destruct (c_maxbody c - c_buflen c <? n); reflexivity.
Qed.
Lemma cap_capture_status c n t : c_status (cap_capture c n t) = c_status c.
Proof.
  unfold cap_capture.
  destruct (c_streamed c || c_toolarge c || (n =? 0)); [reflexivity|].
  destruct (negb (c_limit c)); [reflexivity|].
  destruct (c_maxbody c - c_buflen c <=? 0); [reflexivity|].
  destruct (c_maxbody c - c_buflen c <? n); reflexivity.
Qed.
Lemma cap_capture_headers c n t : c_headers (cap_capture c n t) = c_headers c.
Proof.
  unfold cap_capture.
  destruct (c_streamed c || c_toolarge c || (n =? 0)); [reflexivity|].
  destruct (negb (c_limit c)); [reflexivity|].
  destruct (c_maxbody c - c_buflen c <=? 0); [reflexivity|].
  destruct (c_maxbody c - c_buflen c <? n); reflexivity.
Qed.
Lemma cap_capture_cfg c n t :
  c_miss (cap_capture c n t) = c_miss c /\ c_maxbody (cap_capture c n t) = c_maxbody c /\
  c_limit (cap_capture c n t) = c_limit c.
Proof.
  unfold cap_capture.
  destruct (c_streamed c || c_toolarge c || (n =? 0)); [auto|].
  destruct (negb (c_limit c)); [auto|].
  destruct (c_maxbody c - c_buflen c <=? 0); [auto|].
  destruct (c_maxbody c - c_buflen c <? n); auto.
Qed.

(* the capturing writer after a non-informational WriteHeader on a fresh writer *)
Lemma cap_write_header_fst c u code :
  fst (cap_write_header c u code) =
  if is_info code then c else if c_wrote c then c
  else cw_set c code (c_buf c) (c_buflen c) (u_hdr u) true (c_toolarge c) (c_streamed c || (code =? 101)).
Proof.
  unfold cap_write_header. destruct (is_info code); [reflexivity|]. destruct (c_wrote c); reflexivity.
Qed.

Definition commits (a : action) : bool :=
  match a with
  | AWriteHeader code => negb (is_info code)
  | AWrite _ _ | AFlush | AHijack => true
  | _ => false
  end.

Definition streams_now (wrote : bool) (a : action) : bool :=
  match a with
  | AFlush | AHijack => true
  | AWriteHeader code => negb (is_info code) && negb wrote && (code =? 101)
  | _ => false
  end.

Lemma act_wrote c u a : c_wrote (fst (act (c, u) a)) = c_wrote c || commits a.
Proof.
  destruct a as [k v|k v|k|code|n t| |]; cbn [act fst commits].
  - now rewrite orb_false_r.
  - now rewrite orb_false_r.
  - now rewrite orb_false_r.
  - rewrite cap_write_header_fst. destruct (is_info code); cbn [negb]; [now rewrite orb_false_r|].
    destruct (c_wrote c) eqn:W; [now rewrite W|reflexivity].
  - unfold cap_write. destruct (c_wrote c) eqn:W.
    + cbn [fst]. now rewrite cap_capture_wrote, W.
    + destruct (cap_write_header c u 200) as [c1 u1] eqn:E. cbn [fst]. rewrite cap_capture_wrote.
      pose proof (cap_write_header_fst c u 200) as F. rewrite E, is_info_200, W in F. cbn [fst] in F. now subst c1.
  - unfold cap_flush. cbn [cw_set c_wrote]. destruct (c_wrote c) eqn:W; [cbn [fst cw_set c_wrote]; rewrite ?W; reflexivity|].
    destruct (cap_write_header _ u 200) as [c1 u1] eqn:E. cbn [fst].
    match type of E with cap_write_header ?c0 _ _ = _ => pose proof (cap_write_header_fst c0 u 200) as F end.
    rewrite E, is_info_200 in F. cbn [fst cw_set c_wrote] in F. rewrite ?W in F. now subst c1.
  - cbn [cap_hijack fst cw_set c_wrote]. now rewrite orb_true_r.
Qed.

Lemma act_streamed c u a : c_streamed (fst (act (c, u) a)) = c_streamed c || streams_now (c_wrote c) a.
Proof.
  destruct a as [k v|k v|k|code|n t| |]; cbn [act fst streams_now].
  - now rewrite orb_false_r.
  - now rewrite orb_false_r.
  - now rewrite orb_false_r.
  - rewrite cap_write_header_fst. destruct (is_info code); cbn [negb andb]; [now rewrite orb_false_r|].
    destruct (c_wrote c) eqn:W; cbn [negb andb]; [now rewrite orb_false_r|reflexivity].
  - unfold cap_write. destruct (c_wrote c) eqn:W.
    + cbn [fst]. now rewrite cap_capture_streamed, orb_false_r.
    + destruct (cap_write_header c u 200) as [c1 u1] eqn:E. cbn [fst]. rewrite cap_capture_streamed.
      pose proof (cap_write_header_fst c u 200) as F. rewrite E, is_info_200, W in F. cbn [fst] in F. subst c1.
      cbn [cw_set c_streamed]. change (200 =? 101) with false. reflexivity.
  - unfold cap_flush. cbn [cw_set c_wrote]. destruct (c_wrote c) eqn:W; [cbn [fst cw_set c_streamed]; now rewrite orb_true_r|].
    destruct (cap_write_header _ u 200) as [c1 u1] eqn:E. cbn [fst].
    match type of E with cap_write_header ?c0 _ _ = _ => pose proof (cap_write_header_fst c0 u 200) as F end.
    rewrite E, is_info_200 in F. cbn [fst cw_set c_wrote] in F. rewrite ?W in F. subst c1.
    cbn [cw_set c_streamed]. now rewrite orb_true_r.
  - cbn [cap_hijack fst cw_set c_streamed]. now rewrite orb_true_r.
Qed.

(* ---- whether the rest of a script makes the capturing writer stream ---- *)
Fixpoint streams_from (wrote : bool) (acts : list action) : bool :=
  match acts with
  | [] => false
  | a :: r => streams_now wrote a || streams_from (wrote || commits a) r
  end.

Lemma fold_act_streamed acts : forall c u,
  c_streamed (fst (fold_left act acts (c, u))) = c_streamed c || streams_from (c_wrote c) acts.
Proof.
  induction acts as [|a r IH]; intros c u; cbn [fold_left streams_from fst].
  - now rewrite orb_false_r.
  - destruct (act (c, u) a) as [c1 u1] eqn:E. rewrite IH.
    pose proof (act_streamed c u a) as S. pose proof (act_wrote c u a) as W. rewrite E in S, W. cbn [fst] in S, W.
    rewrite S, W. now rewrite orb_assoc.
Qed.

Lemma fold_act_wrote acts : forall c u,
  c_wrote (fst (fold_left act acts (c, u))) = c_wrote c || existsb commits acts.
Proof.
  induction acts as [|a r IH]; intros c u; cbn [fold_left existsb fst].
  - now rewrite orb_false_r.
  - destruct (act (c, u) a) as [c1 u1] eqn:E. rewrite IH.
    pose proof (act_wrote c u a) as W. rewrite E in W. cbn [fst] in W. rewrite W. now rewrite orb_assoc.
Qed.

Lemma cap_finish_streamed c u : c_streamed (fst (cap_finish (c, u))) = c_streamed c.
Proof.
  unfold cap_finish. destruct (c_wrote c) eqn:W; [reflexivity|].
  rewrite cap_write_header_fst, is_info_200, W. cbn [cw_set c_streamed]. change (200 =? 101) with false. now rewrite orb_false_r.
Qed.

(* TASK 4a, computational form *)
Theorem run_handler_streamed miss maxbody limit acts :
  c_streamed (fst (run_handler miss maxbody limit acts)) = streams_from false acts.
Proof.
  unfold run_handler.
  destruct (fold_left act acts (new_capw miss maxbody limit, new_under)) as [c u] eqn:E.
  rewrite cap_finish_streamed.
  pose proof (fold_act_streamed acts (new_capw miss maxbody limit) new_under) as S. rewrite E in S. exact S.
Qed.

(* the same, as the statement "Flush, Hijack, or WriteHeader(101) as the committing status" *)
Lemma streams_from_true_iff acts :
  streams_from true acts = true <-> In AFlush acts \/ In AHijack acts.
Proof.
  induction acts as [|a r IH]; cbn [streams_from In orb].
  - split; [discriminate|tauto].
  - rewrite orb_true_iff, IH. destruct a as [k v|k v|k|code|n t| |]; cbn [streams_now negb andb];
      rewrite ?andb_false_r; (split; [intros [H|[H|H]]; try discriminate; auto|
                                    intros [[H|H]|[H|H]]; try discriminate; auto]).
Qed.

Theorem streams_from_false_iff acts :
  streams_from false acts = true <->
  In AFlush acts \/ In AHijack acts \/
  exists pre post, acts = pre ++ AWriteHeader 101 :: post /\ existsb commits pre = false.
Proof.
  induction acts as [|a r IH].
  - cbn. split; [discriminate|]. intros [[]|[[]|(pre & post & H & _)]]. destruct pre; discriminate.
  - cbn [streams_from orb]. rewrite orb_true_iff.
    destruct (commits a) eqn:C.
    + rewrite streams_from_true_iff. split.
      * intros [H|[H|H]].
        -- destruct a as [k v|k v|k|code|n t| |]; cbn [streams_now] in H; try discriminate.
           ++ right; right. exists [], r. split; [|reflexivity]. cbn [app].
              apply andb_true_iff in H as [_ H]. apply Z.eqb_eq in H. now subst.
           ++ left; now left.
           ++ right; left; now left.
        -- left; now right.
        -- right; left; now right.
      * intros [[H|H]|[[H|H]|(pre & post & H & P)]].
        -- subst a. now left.
        -- right; now left.
        -- subst a. now left.
        -- right; now right.
        -- destruct pre as [|b pre]; cbn [app] in H; injection H as H1 H2.
           ++ subst a. now left.
           ++ subst b. cbn [existsb] in P. rewrite C in P. discriminate.
    + assert (N : streams_now false a = false).
      { destruct a as [k v|k v|k|code|n t| |]; cbn in C |- *; try discriminate; try reflexivity.
        apply negb_false_iff in C. now rewrite C. }
      rewrite N, IH. split.
      * intros [H|[H|[H|(pre & post & H & P)]]]; [discriminate|left; now right|right; left; now right|].
        right; right. exists (a :: pre), post. subst r. split; [reflexivity|]. cbn [existsb]. now rewrite C, P.
      * intros [[H|H]|[[H|H]|(pre & post & H & P)]].
        -- subst a; discriminate.
        -- right; now left.
        -- subst a; discriminate.
        -- right; right; now left.
        -- destruct pre as [|b pre]; cbn [app] in H; injection H as H1 H2.
           ++ subst a. discriminate.
           ++ subst b r. cbn [existsb] in P. rewrite C in P. cbn [orb] in P.
              right; right; right. now exists pre, post.
Qed.

(* ---- the body budget ---- *)
Fixpoint wsum (acts : list action) : Z :=
  match acts with
  | [] => 0
  | AWrite n _ :: r => n + wsum r
  | _ :: r => wsum r
  end.
Definition writes_nonneg (acts : list action) : Prop := forall n t, In (AWrite n t) acts -> 0 <= n.

Lemma cap_write_eq c u n t :
  cap_write c u n t = (cap_capture (fst (cap_finish (c, u))) n t, u_write (snd (cap_finish (c, u))) n t).
Proof.
  unfold cap_write, cap_finish. destruct (c_wrote c); [reflexivity|].
  destruct (cap_write_header c u 200) as [c1 u1]. reflexivity.
Qed.

Lemma cap_finish_fields c u :
  let c1 := fst (cap_finish (c, u)) in
  c_buf c1 = c_buf c /\ c_buflen c1 = c_buflen c /\ c_toolarge c1 = c_toolarge c /\ c_streamed c1 = c_streamed c /\
  c_miss c1 = c_miss c /\ c_maxbody c1 = c_maxbody c /\ c_limit c1 = c_limit c /\ c_wrote c1 = true /\
  c_status c1 = (if c_wrote c then c_status c else 200) /\
  c_headers c1 = (if c_wrote c then c_headers c else u_hdr u).
Proof.
  cbv zeta. rewrite cap_finish_streamed. unfold cap_finish. destruct (c_wrote c) eqn:W.
  - cbn [fst]. rewrite W. repeat split; reflexivity.
  - rewrite cap_write_header_fst, is_info_200, W. cbn. repeat split; reflexivity.
Qed.

(* actions other than Write leave the capture buffer alone *)
Lemma act_nonwrite_fields c u a :
  (forall n t, a <> AWrite n t) ->
  let c1 := fst (act (c, u) a) in
  c_buf c1 = c_buf c /\ c_buflen c1 = c_buflen c /\ c_toolarge c1 = c_toolarge c /\
  c_miss c1 = c_miss c /\ c_maxbody c1 = c_maxbody c /\ c_limit c1 = c_limit c.
Proof.
  intros NW. cbv zeta. destruct a as [k v|k v|k|code|n t| |]; cbn [act fst]; try (repeat split; reflexivity).
  - rewrite cap_write_header_fst. destruct (is_info code); [repeat split; reflexivity|].
    destruct (c_wrote c); repeat split; reflexivity.
  - exfalso. now apply (NW n t).
  - unfold cap_flush. cbn [cw_set c_wrote]. destruct (c_wrote c) eqn:W; [repeat split; reflexivity|].
    destruct (cap_write_header _ u 200) as [c1 u1] eqn:E. cbn [fst].
    match type of E with cap_write_header ?c0 _ _ = _ => pose proof (cap_write_header_fst c0 u 200) as F end.
    rewrite E, is_info_200 in F. cbn [fst cw_set c_wrote] in F. rewrite ?W in F. subst c1. repeat split; reflexivity.
Qed.

Lemma act_cfg c u a :
  let c1 := fst (act (c, u) a) in
  c_miss c1 = c_miss c /\ c_maxbody c1 = c_maxbody c /\ c_limit c1 = c_limit c.
Proof.
  cbv zeta. destruct a as [k v|k v|k|code|n t| |];
    try (apply act_nonwrite_fields; intros; discriminate).
  cbn [act]. rewrite cap_write_eq. cbn [fst].
  pose proof (cap_capture_cfg (fst (cap_finish (c, u))) n t) as (A & B & C).
  pose proof (cap_finish_fields c u) as F. cbv zeta in F. destruct F as (_ & _ & _ & _ & M & X & L & _).
  rewrite A, B, C, M, X, L. auto.
Qed.

Lemma fold_act_cfg acts : forall c u,
  let c1 := fst (fold_left act acts (c, u)) in
  c_miss c1 = c_miss c /\ c_maxbody c1 = c_maxbody c /\ c_limit c1 = c_limit c.
Proof.
  induction acts as [|a r IH]; intros c u; cbn [fold_left]; [cbn; auto|].
  destruct (act (c, u) a) as [c1 u1] eqn:E. pose proof (act_cfg c u a) as A. rewrite E in A. cbn [fst] in A.
  specialize (IH c1 u1). cbv zeta in *. destruct A as (A1 & A2 & A3), IH as (I1 & I2 & I3).
  rewrite I1, I2, I3. auto.
Qed.

(* one Write under a limit: the budget invariant (T = bytes written so far) *)
Lemma cap_capture_limit c n t T :
  c_limit c = true -> c_streamed c = false -> 0 <= n -> 0 <= c_maxbody c ->
  c_toolarge c = (c_maxbody c <? T) -> c_buflen c = Z.min T (c_maxbody c) ->
  c_toolarge (cap_capture c n t) = (c_maxbody c <? T + n) /\
  c_buflen (cap_capture c n t) = Z.min (T + n) (c_maxbody c).
Proof.
  intros L S N M TL BL. unfold cap_capture. rewrite S, L. cbn [orb negb].
  destruct (c_toolarge c) eqn:TLc; cbn [orb].
  - rewrite TLc. lia.
  - destruct (n =? 0) eqn:N0; [rewrite TLc; lia|].
    destruct (c_maxbody c - c_buflen c <=? 0) eqn:R0; [cbn; lia|].
    destruct (c_maxbody c - c_buflen c <? n) eqn:R1; cbn; lia.
Qed.

Lemma cap_capture_nolimit c n t :
  c_limit c = false -> c_streamed c = false -> c_toolarge c = false ->
  c_toolarge (cap_capture c n t) = false /\ c_buflen (cap_capture c n t) = c_buflen c + n.
Proof.
  intros L S TL. unfold cap_capture. rewrite S, L, TL. cbn [orb negb].
  destruct (n =? 0) eqn:N0; [split; [assumption|lia]|]. cbn. auto.
Qed.

Lemma fold_act_limit acts : forall c u T,
  c_limit c = true -> c_streamed c = false -> streams_from (c_wrote c) acts = false ->
  writes_nonneg acts -> 0 <= c_maxbody c ->
  c_toolarge c = (c_maxbody c <? T) -> c_buflen c = Z.min T (c_maxbody c) ->
  let c1 := fst (fold_left act acts (c, u)) in
  c_toolarge c1 = (c_maxbody c <? T + wsum acts) /\ c_buflen c1 = Z.min (T + wsum acts) (c_maxbody c).
Proof.
  induction acts as [|a r IH]; intros c u T L S SF NN M TL BL; cbn [fold_left fst].
  - cbn [wsum]. rewrite Z.add_0_r. auto.
  - cbn [streams_from] in SF. apply orb_false_iff in SF as [SN SF].
    destruct (act (c, u) a) as [c1 u1] eqn:E.
    pose proof (act_streamed c u a) as S1. pose proof (act_wrote c u a) as W1. pose proof (act_cfg c u a) as C1.
    rewrite E in S1, W1, C1. cbn [fst] in S1, W1, C1. destruct C1 as (_ & MB & LM).
    rewrite S, SN in S1. cbn [orb] in S1. rewrite <- W1 in SF.
    assert (NN' : writes_nonneg r) by (intros n t H; apply (NN n t); now right).
    assert (Hstep : c_toolarge c1 = (c_maxbody c <? T + (wsum (a :: r) - wsum r)) /\
                    c_buflen c1 = Z.min (T + (wsum (a :: r) - wsum r)) (c_maxbody c)).
    { destruct a as [k v|k v|k|code|n t| |];
        try (match type of E with act _ ?a = _ => pose proof (act_nonwrite_fields c u a ltac:(intros; discriminate)) as F end; rewrite E in F; cbn [fst] in F;
             destruct F as (_ & F2 & F3 & _); rewrite F2, F3; cbn [wsum]; rewrite Z.sub_diag, Z.add_0_r; auto).
      cbn [act] in E. rewrite cap_write_eq in E. injection E as E1 E2.
      pose proof (cap_finish_fields c u) as F. cbv zeta in F. destruct F as (_ & F2 & F3 & F4 & _ & F6 & F7 & _).
      cbn [wsum]. replace (n + wsum r - wsum r) with n by ring. subst c1. rewrite <- F6.
      apply cap_capture_limit; try congruence.
      apply (NN n t). now left. }
    destruct Hstep as [H1 H2].
    specialize (IH c1 u1 (T + (wsum (a :: r) - wsum r))). cbv zeta in IH. rewrite MB in IH.
    replace (T + (wsum (a :: r) - wsum r) + wsum r) with (T + wsum (a :: r)) in IH by ring.
    apply IH; try assumption. congruence.
Qed.

Lemma fold_act_nolimit acts : forall c u,
  c_limit c = false -> c_streamed c = false -> streams_from (c_wrote c) acts = false ->
  c_toolarge c = false ->
  let c1 := fst (fold_left act acts (c, u)) in
  c_toolarge c1 = false /\ c_buflen c1 = c_buflen c + wsum acts.
Proof.
  induction acts as [|a r IH]; intros c u L S SF TL; cbn [fold_left fst].
  - cbn [wsum]. split; [assumption|ring].
  - cbn [streams_from] in SF. apply orb_false_iff in SF as [SN SF].
    destruct (act (c, u) a) as [c1 u1] eqn:E.
    pose proof (act_streamed c u a) as S1. pose proof (act_wrote c u a) as W1. pose proof (act_cfg c u a) as C1.
    rewrite E in S1, W1, C1. cbn [fst] in S1, W1, C1. destruct C1 as (_ & MB & LM).
    rewrite S, SN in S1. cbn [orb] in S1. rewrite <- W1 in SF.
    assert (Hstep : c_toolarge c1 = false /\ c_buflen c1 = c_buflen c + (wsum (a :: r) - wsum r)).
    { destruct a as [k v|k v|k|code|n t| |];
        try (match type of E with act _ ?a = _ => pose proof (act_nonwrite_fields c u a ltac:(intros; discriminate)) as F end; rewrite E in F; cbn [fst] in F;
             destruct F as (_ & F2 & F3 & _); rewrite F2, F3; cbn [wsum]; split; [assumption|ring]).
      cbn [act] in E. rewrite cap_write_eq in E. injection E as E1 E2.
      pose proof (cap_finish_fields c u) as F. cbv zeta in F. destruct F as (_ & F2 & F3 & F4 & _ & F6 & F7 & _).
      cbn [wsum]. replace (n + wsum r - wsum r) with n by ring. subst c1. rewrite <- F2.
      apply cap_capture_nolimit; congruence. }
    destruct Hstep as [H1 H2].
    specialize (IH c1 u1). cbv zeta in IH. rewrite H2 in IH.
    replace (c_buflen c + wsum (a :: r)) with (c_buflen c + (wsum (a :: r) - wsum r) + wsum r) by ring.
    apply IH; congruence.
Qed.

Lemma run_handler_unfold miss maxbody limit acts :
  run_handler miss maxbody limit acts =
  cap_finish (fst (fold_left act acts (new_capw miss maxbody limit, new_under)),
              snd (fold_left act acts (new_capw miss maxbody limit, new_under))).
Proof. unfold run_handler. now rewrite <- surjective_pairing. Qed.

Theorem run_handler_cfg miss maxbody limit acts :
  let c := fst (run_handler miss maxbody limit acts) in
  c_miss c = miss /\ c_maxbody c = maxbody /\ c_limit c = limit.
Proof.
  cbv zeta. rewrite run_handler_unfold.
  pose proof (cap_finish_fields (fst (fold_left act acts (new_capw miss maxbody limit, new_under)))
                                (snd (fold_left act acts (new_capw miss maxbody limit, new_under)))) as F.
  cbv zeta in F. destruct F as (_ & _ & _ & _ & F1 & F2 & F3 & _).
  pose proof (fold_act_cfg acts (new_capw miss maxbody limit) new_under) as G. cbv zeta in G.
  destruct G as (G1 & G2 & G3). rewrite F1, F2, F3, G1, G2, G3. cbn. auto.
Qed.

(* TASK 4b: under a limit, a script that never streams is too large exactly when it writes more than maxbody *)
Theorem run_handler_limit miss maxbody acts :
  0 <= maxbody -> writes_nonneg acts -> streams_from false acts = false ->
  let c := fst (run_handler miss maxbody true acts) in
  (c_toolarge c = true <-> wsum acts > maxbody) /\ c_buflen c = Z.min (wsum acts) maxbody.
Proof.
  intros M NN SF. cbv zeta. rewrite run_handler_unfold.
  pose proof (cap_finish_fields (fst (fold_left act acts (new_capw miss maxbody true, new_under)))
                                (snd (fold_left act acts (new_capw miss maxbody true, new_under)))) as F.
  cbv zeta in F. destruct F as (_ & F1 & F2 & _). rewrite F1, F2.
  pose proof (fold_act_limit acts (new_capw miss maxbody true) new_under 0) as G. cbv zeta in G.
  cbn [new_capw c_limit c_streamed c_wrote c_maxbody c_toolarge c_buflen] in G.
  destruct G as [G1 G2]; try assumption; try reflexivity.
  - clear - M. symmetry. apply Z.ltb_ge. exact M.
  - clear - M. lia.
  - rewrite G1, G2. rewrite Z.add_0_l. clear. split; [|reflexivity]. rewrite Z.ltb_lt. lia.
Qed.

Theorem run_handler_nolimit miss maxbody acts :
  streams_from false acts = false ->
  let c := fst (run_handler miss maxbody false acts) in
  c_toolarge c = false /\ c_buflen c = wsum acts.
Proof.
  intros SF. cbv zeta. rewrite run_handler_unfold.
  pose proof (cap_finish_fields (fst (fold_left act acts (new_capw miss maxbody false, new_under)))
                                (snd (fold_left act acts (new_capw miss maxbody false, new_under)))) as F.
  cbv zeta in F. destruct F as (_ & F1 & F2 & _). rewrite F1, F2.
  pose proof (fold_act_nolimit acts (new_capw miss maxbody false) new_under) as G. cbv zeta in G.
  cbn [new_capw c_limit c_streamed c_wrote c_maxbody c_toolarge c_buflen] in G.
  destruct G as [G1 G2]; try assumption; try reflexivity.
  rewrite G1, G2. split; [reflexivity|ring].
Qed.

(* the hypothesis 0 <= maxbody is necessary: with a negative limit and only empty writes the
   writer is not "too large" although 0 > maxbody *)
Example run_handler_limit_negative_refuted :
  let c := fst (run_handler [] (-1) true [AWrite 0 7]) in
  c_toolarge c = false /\ wsum [AWrite 0 7] > -1 /\ c_buflen c = 0.
Proof. vm_compute. intuition congruence. Qed.

(* TASK 4c: wrap_miss stores nothing when the script streamed or wrote more than the limit *)
Theorem wrap_miss_streamed_none p ignore miss method acts exp :
  streams_from false acts = true -> fst (wrap_miss p ignore miss method acts exp) = None.
Proof.
  intros SF. unfold wrap_miss. destruct (negb (memZ (p_methods p) method)); [reflexivity|].
  destruct (run_handler miss (p_maxbody p) (p_limit p) acts) as [c u] eqn:E.
  pose proof (run_handler_streamed miss (p_maxbody p) (p_limit p) acts) as S. rewrite E in S. cbn [fst] in S.
  unfold cacheable. rewrite S, SF. reflexivity.
Qed.

Corollary wrap_miss_flush_hijack_upgrade_none p ignore miss method acts exp :
  (In AFlush acts \/ In AHijack acts \/
   exists pre post, acts = pre ++ AWriteHeader 101 :: post /\ existsb commits pre = false) ->
  fst (wrap_miss p ignore miss method acts exp) = None.
Proof. intros H. apply wrap_miss_streamed_none. now apply streams_from_false_iff. Qed.

Theorem wrap_miss_toolarge_none p ignore miss method acts exp :
  p_limit p = true -> 0 <= p_maxbody p -> writes_nonneg acts -> wsum acts > p_maxbody p ->
  fst (wrap_miss p ignore miss method acts exp) = None.
Proof.
  intros L M NN W. destruct (streams_from false acts) eqn:SF; [now apply wrap_miss_streamed_none|].
  unfold wrap_miss. destruct (negb (memZ (p_methods p) method)); [reflexivity|].
  destruct (run_handler miss (p_maxbody p) (p_limit p) acts) as [c u] eqn:E.
  pose proof (run_handler_limit miss (p_maxbody p) acts M NN SF) as R. cbv zeta in R.
  rewrite L in E. rewrite E in R. cbn [fst] in R. destruct R as [[_ R] _].
  unfold cacheable. rewrite (R W). now rewrite andb_false_r.
Qed.

(* TASK 5: the method gate *)
Theorem wrap_miss_method_gate p ignore miss method acts exp :
  memZ (p_methods p) method = false ->
  wrap_miss p ignore miss method acts exp = (None, run_raw acts).
Proof. intros H. unfold wrap_miss. now rewrite H. Qed.

(* ================================================================== *)
(** * Part B — what the client was sent is what was captured (TASK item 6) *)
(* ================================================================== *)

Definition marked (miss : str) (h : header) : header :=
  match miss with [] => h | _ => hset h miss [s_MISS] end.

(* the coupling invariant between the capturing writer and the server-side writer below it *)
Definition coupled (c : capw) (u : under) : Prop :=
  u_hijacked u = false /\ u_committed u = c_wrote c /\
  (c_wrote c = false -> c_buf c = [] /\ u_body u = []) /\
  (c_wrote c = true ->
     u_status u = c_status c /\ u_sent_hdr u = marked (c_miss c) (c_headers c) /\
     (cacheable c = true -> body_allowed (c_status c) = true -> u_body u = c_buf c)).

Lemma coupled_new miss maxbody limit : coupled (new_capw miss maxbody limit) new_under.
Proof. unfold coupled; cbn. repeat split; auto; discriminate. Qed.

Lemma cap_write_header_commit_coupled c u code c' u' :
  cap_write_header c u code = (c', u') -> is_info code = false -> c_wrote c = false ->
  coupled c u -> coupled c' u' /\ c_wrote c' = true.
Proof.
  intros E NI W (HJ & CM & NW & _). unfold cap_write_header in E. rewrite NI, W in E.
  rewrite W in CM. destruct (NW W) as [B1 B2].
  injection E as E1 E2. subst c'. split; [|reflexivity].
  assert (U : u' = {| u_hdr := marked (c_miss c) (u_hdr u); u_committed := true; u_status := code;
                      u_sent_hdr := marked (c_miss c) (u_hdr u); u_body := u_body u; u_info := u_info u;
                      u_hijacked := false |}).
  { subst u'. unfold marked. destruct (c_miss c) as [|m mk]; unfold u_write_header.
    - now rewrite HJ, NI, CM.
    - cbn [u_set_hdr u_hijacked u_committed u_hdr u_status u_sent_hdr u_body u_info]. now rewrite HJ, NI, CM. }
  rewrite U. unfold coupled.
  cbn [u_hijacked u_committed u_status u_sent_hdr u_body cw_set c_wrote c_buf c_status c_miss c_headers].
  repeat split; try reflexivity; try discriminate. intros _ _. congruence.
Qed.

Lemma u_write_header_info_coupled c u code :
  is_info code = true -> coupled c u -> coupled c (u_write_header u code).
Proof.
  intros I (HJ & CM & NW & WR). unfold u_write_header. rewrite HJ, I. unfold coupled.
  cbn [u_hijacked u_committed u_status u_sent_hdr u_body]. auto.
Qed.

Lemma cap_finish_coupled c u :
  coupled c u -> coupled (fst (cap_finish (c, u))) (snd (cap_finish (c, u))) /\ c_wrote (fst (cap_finish (c, u))) = true.
Proof.
  intros I. unfold cap_finish. destruct (c_wrote c) eqn:W; [cbn [fst snd]; auto|].
  destruct (cap_write_header c u 200) as [c' u'] eqn:E. cbn [fst snd].
  eapply cap_write_header_commit_coupled; eauto.
Qed.

Lemma cap_capture_cacheable c n t :
  cacheable (cap_capture c n t) = true ->
  cacheable c = true /\ c_buf (cap_capture c n t) = (if n =? 0 then c_buf c else c_buf c ++ [(n, t)]).
Proof.
  unfold cacheable, cap_capture.
  destruct (c_streamed c) eqn:S; cbn [orb negb andb].
  { rewrite S. discriminate. }
  destruct (c_toolarge c) eqn:TL; cbn [orb negb andb].
  { rewrite S, TL. discriminate. }
  destruct (n =? 0) eqn:N0.
  { rewrite S, TL. auto. }
  destruct (negb (c_limit c)).
  { cbn. auto. }
  destruct (c_maxbody c - c_buflen c <=? 0).
  { cbn; rewrite ?S; discriminate. }
  destruct (c_maxbody c - c_buflen c <? n).
  { cbn; rewrite ?S; discriminate. }
  cbn. auto.
Qed.

Lemma cap_write_coupled c u n t c' u' :
  cap_write c u n t = (c', u') -> coupled c u -> coupled c' u' /\ c_wrote c' = true.
Proof.
  intros E I. rewrite cap_write_eq in E. apply pair_equal_spec in E as [E1 E2].
  destruct (cap_finish_coupled c u I) as [(HJ & CM & _ & WR) W1].
  set (c1 := fst (cap_finish (c, u))) in *. set (u1 := snd (cap_finish (c, u))) in *.
  destruct (WR W1) as (ST & SH & BD). rewrite W1 in CM.
  assert (W' : c_wrote c' = true) by (subst c'; now rewrite cap_capture_wrote).
  split; [|exact W'].
  assert (U : u' = {| u_hdr := u_hdr u1; u_committed := true; u_status := u_status u1; u_sent_hdr := u_sent_hdr u1;
                      u_body := (if (n =? 0) || negb (body_allowed (u_status u1)) then u_body u1 else u_body u1 ++ [(n, t)]);
                      u_info := u_info u1; u_hijacked := false |}).
  { subst u'. unfold u_write. rewrite HJ, CM. now rewrite CM. }
  rewrite U. unfold coupled. cbn [u_hijacked u_committed u_status u_sent_hdr u_body].
  rewrite W'. repeat split; try reflexivity; try discriminate.
  - subst c'. now rewrite cap_capture_status.
  - subst c'. rewrite cap_capture_headers. destruct (cap_capture_cfg c1 n t) as (M & _). now rewrite M.
  - intros CA BA. subst c'. rewrite cap_capture_status in BA.
    destruct (cap_capture_cacheable c1 n t CA) as [CA1 BF]. rewrite BF, ST, BA, (BD CA1 BA). cbn [negb].
    now rewrite orb_false_r.
Qed.

Lemma cap_flush_coupled c u c' u' :
  cap_flush c u = (c', u') -> coupled c u -> coupled c' u'.
Proof.
  intros E (HJ & CM & NW & WR). unfold cap_flush in E. cbn [cw_set c_wrote] in E.
  destruct (c_wrote c) eqn:W.
  - rewrite CM in E. injection E as E1 E2. subst c' u'. destruct (WR eq_refl) as (ST & SH & _).
    unfold coupled. cbn [cw_set c_wrote c_status c_miss c_headers c_buf]. rewrite ?W.
    repeat split; auto; try discriminate.
  - remember (cw_set c (c_status c) (c_buf c) (c_buflen c) (c_headers c) false (c_toolarge c) true) as c0 eqn:C0.
    destruct (cap_write_header c0 u 200) as [c1 u1] eqn:E1. injection E as <- <-.
    apply (cap_write_header_commit_coupled c0 u 200 c1 u1 E1 eq_refl).
    + subst c0. reflexivity.
    + subst c0. unfold coupled. cbn [cw_set c_wrote c_status c_miss c_headers c_buf].
      repeat split; auto; try discriminate; apply NW; reflexivity.
Qed.

Lemma set_hdr_coupled c u h : coupled c u -> coupled c (u_set_hdr u h).
Proof. intros I. exact I. Qed.

Lemma act_coupled c u a c' u' :
  act (c, u) a = (c', u') -> a <> AHijack -> coupled c u -> coupled c' u'.
Proof.
  intros E NH I. destruct a as [k v|k v|k|code|n t| |]; cbn [act] in E.
  - injection E as <- <-. now apply set_hdr_coupled.
  - injection E as <- <-. now apply set_hdr_coupled.
  - injection E as <- <-. now apply set_hdr_coupled.
  - destruct (is_info code) eqn:NI.
    + unfold cap_write_header in E. rewrite NI in E. injection E as <- <-. now apply u_write_header_info_coupled.
    + destruct (c_wrote c) eqn:W.
      * unfold cap_write_header in E. rewrite NI, W in E. now injection E as <- <-.
      * eapply cap_write_header_commit_coupled; eauto.
  - eapply cap_write_coupled; eauto.
  - eapply cap_flush_coupled; eauto.
  - congruence.
Qed.

Lemma fold_act_coupled acts : forall c u,
  ~ In AHijack acts -> coupled c u ->
  coupled (fst (fold_left act acts (c, u))) (snd (fold_left act acts (c, u))).
Proof.
  induction acts as [|a r IH]; intros c u NH I; cbn [fold_left]; [exact I|].
  destruct (act (c, u) a) as [c1 u1] eqn:E. apply IH.
  - intros H; apply NH; now right.
  - eapply act_coupled; eauto. intros ->. apply NH. now left.
Qed.

(* TASK 6 *)
Theorem capture_faithful miss maxbody limit acts :
  ~ In AHijack acts ->
  let c := fst (run_handler miss maxbody limit acts) in
  let u := snd (run_handler miss maxbody limit acts) in
  c_wrote c = true /\ u_committed u = true /\ u_hijacked u = false /\ u_status u = c_status c /\
  u_sent_hdr u = (match miss with [] => c_headers c | _ => hset (c_headers c) miss [s_MISS] end) /\
  (cacheable c = true -> body_allowed (c_status c) = true -> u_body u = c_buf c).
Proof.
  intros NH. cbv zeta. rewrite run_handler_unfold.
  pose proof (fold_act_coupled acts (new_capw miss maxbody limit) new_under NH (coupled_new _ _ _)) as I.
  destruct (cap_finish_coupled _ _ I) as [(HJ & CM & _ & WR) W].
  destruct (WR W) as (ST & SH & BD).
  pose proof (run_handler_cfg miss maxbody limit acts) as C. cbv zeta in C. rewrite run_handler_unfold in C.
  destruct C as (C1 & _). rewrite C1 in SH. unfold marked in SH.
  rewrite W in CM. auto 10.
Qed.

(* ================================================================== *)
(** * Part C — byte-string lemmas, has_directive (TASK item 1, exact form) *)
(* ================================================================== *)

Lemma str_eqb_eq a : forall b, str_eqb a b = true <-> a = b.
Proof.
  induction a as [|x a IH]; intros [|y b]; cbn [str_eqb]; try (split; [discriminate|congruence]).
  - tauto.
  - rewrite andb_true_iff, IH, Z.eqb_eq. split; [intros [-> ->]; reflexivity|intros H; injection H; auto].
Qed.
Lemma str_eqb_refl a : str_eqb a a = true. Proof. now apply str_eqb_eq. Qed.

Lemma equal_fold_iff a b : equal_fold a b = true <-> map lower a = map lower b.
Proof. unfold equal_fold. apply str_eqb_eq. Qed.
Lemma equal_fold_refl a : equal_fold a a = true. Proof. now apply equal_fold_iff. Qed.
Lemma equal_fold_sym a b : equal_fold a b = equal_fold b a.
Proof.
  destruct (equal_fold a b) eqn:E1, (equal_fold b a) eqn:E2; try reflexivity.
  - apply equal_fold_iff in E1. symmetry in E1. apply equal_fold_iff in E1. congruence.
  - apply equal_fold_iff in E2. symmetry in E2. apply equal_fold_iff in E2. congruence.
Qed.
Lemma equal_fold_trans a b c : equal_fold a b = true -> equal_fold b c = true -> equal_fold a c = true.
Proof. rewrite !equal_fold_iff. congruence. Qed.

(* [upto sep s]: the prefix of s before the first sep *)
Fixpoint upto (sep : Z) (s : str) : str :=
  match s with [] => [] | c :: r => if c =? sep then [] else c :: upto sep r end.

Lemma split_on_acc sep s : forall cur,
  split_on sep s cur = match split_on sep s [] with p :: ps => (rev cur ++ p) :: ps | [] => [] end.
Proof.
  induction s as [|c r IH]; intros cur; cbn [split_on].
  - cbn [rev]. now rewrite app_nil_r.
  - destruct (c =? sep).
    + cbn [rev]. now rewrite app_nil_r.
    + rewrite (IH (c :: cur)), (IH [c]). destruct (split_on sep r []) as [|p ps]; [reflexivity|].
      cbn [rev app]. now rewrite <- app_assoc.
Qed.

Lemma split_comma_nil : split_comma [] = [[]]. Proof. reflexivity. Qed.
Lemma split_comma_cons c r :
  split_comma (c :: r) =
  if c =? 44 then [] :: split_comma r
  else match split_comma r with p :: ps => (c :: p) :: ps | [] => [] end.
Proof.
  unfold split_comma. cbn [split_on]. destruct (c =? 44); [reflexivity|].
  rewrite split_on_acc. destruct (split_on 44 r []); reflexivity.
Qed.
Lemma split_comma_nonempty s : split_comma s <> [].
Proof.
  induction s as [|c r IH]; [discriminate|]. rewrite split_comma_cons.
  destruct (c =? 44); [discriminate|]. destruct (split_comma r); [congruence|discriminate].
Qed.
Lemma split_comma_head s : exists ps, split_comma s = upto 44 s :: ps.
Proof.
  induction s as [|c r [ps IH]]; [now exists []|]. rewrite split_comma_cons. cbn [upto].
  destruct (c =? 44); [eauto|]. rewrite IH. eauto.
Qed.
(* strings.Split distributes over a separating comma *)
Lemma split_comma_app a b : split_comma (a ++ 44 :: b) = split_comma a ++ split_comma b.
Proof.
  induction a as [|c a IH]; cbn [app].
  - rewrite split_comma_cons. reflexivity.
  - rewrite !split_comma_cons, IH. destruct (c =? 44); [reflexivity|].
    destruct (split_comma a) as [|p ps] eqn:E; [now destruct (split_comma_nonempty a)|reflexivity].
Qed.

Lemma cut_on_fst sep s : forall acc, fst (fst (cut_on sep s acc)) = rev acc ++ upto sep s.
Proof.
  induction s as [|c r IH]; intros acc; cbn [cut_on upto].
  - cbn [fst]. now rewrite app_nil_r.
  - destruct (c =? sep); cbn [fst]; [now rewrite app_nil_r|]. rewrite IH. cbn [rev]. now rewrite <- app_assoc.
Qed.

Lemma directive_name_eq p : directive_name p = trim_space (upto 61 (trim_space p)).
Proof.
  unfold directive_name, cut_eq. pose proof (cut_on_fst 61 (trim_space p) []) as H.
  destruct (cut_on 61 (trim_space p) []) as [[nm af] ok]. cbn [fst rev app] in H. now subst nm.
Qed.

(* TASK 1, exact characterisation of what the code computes *)
Theorem has_directive_iff v ds :
  has_directive v ds = true <->
  v <> [] /\ exists p d, In p (split_comma v) /\ In d ds /\
                         equal_fold (trim_space (upto 61 (trim_space p))) d = true.
Proof.
  unfold has_directive. destruct v as [|c r].
  - split; [discriminate|]. intros [H _]. congruence.
  - rewrite existsb_exists. split.
    + intros (p & Hp & H). apply existsb_exists in H as (d & Hd & H). rewrite directive_name_eq in H.
      split; [discriminate|]. eauto.
    + intros (_ & p & d & Hp & Hd & H). exists p. split; [exact Hp|]. apply existsb_exists. exists d.
      rewrite directive_name_eq. auto.
Qed.

(* for directive names that are not empty the guard v <> [] is redundant *)
Lemma trim_space_nil : trim_space [] = []. Proof. reflexivity. Qed.
Corollary has_directive_iff' v ds :
  ~ In [] ds ->
  (has_directive v ds = true <->
   exists p d, In p (split_comma v) /\ In d ds /\ equal_fold (trim_space (upto 61 (trim_space p))) d = true).
Proof.
  intros NE. rewrite has_directive_iff. split; [tauto|]. intros (p & d & Hp & Hd & H). split; [|eauto].
  intros ->. cbn in Hp. destruct Hp as [<-|[]]. cbn in H. destruct d; [contradiction|discriminate].
Qed.

(* ---- joined header values ---- *)
Lemma join_comma_cons2 v w r : join_comma (v :: w :: r) = v ++ 44 :: join_comma (w :: r).
Proof. reflexivity. Qed.

Lemma split_join_piece vs : forall v p, In v vs -> In p (split_comma v) -> In p (split_comma (join_comma vs)).
Proof.
  induction vs as [|v0 r IH]; intros v p Hv Hp; [contradiction|].
  destruct r as [|w r].
  - destruct Hv as [->|[]]. exact Hp.
  - rewrite join_comma_cons2, split_comma_app. apply in_or_app. destruct Hv as [->|Hv]; [now left|].
    right. eapply IH; eauto.
Qed.

Lemma join_comma_nil_iff vs : join_comma vs = [] -> forall v, In v vs -> v = [].
Proof.
  destruct vs as [|v0 [|w r]]; intros H v Hv; [contradiction| |].
  - destruct Hv as [->|[]]. exact H.
  - rewrite join_comma_cons2 in H. destruct v0; discriminate.
Qed.

Lemma insert_key_in kv k l : In kv (insert_key k l) <-> kv = k \/ In kv l.
Proof.
  induction l as [|h r IH]; cbn [insert_key In].
  - split; intros [H|H]; auto.
  - destruct (str_leb (fst k) (fst h)); cbn [In]; [split; intros [H|H]; auto|].
    rewrite IH. tauto.
Qed.
Lemma sort_header_in kv h : In kv (sort_header h) <-> In kv h.
Proof.
  induction h as [|x r IH]; cbn [sort_header fold_right In]; [tauto|].
  rewrite insert_key_in. fold (sort_header r). rewrite IH. split; intros [H|H]; auto.
Qed.

(* every field line of every spelling of the name contributes its comma pieces *)
Lemma header_field_values_piece h name k vs v p :
  In (k, vs) h -> equal_fold k name = true -> In v vs -> In p (split_comma v) ->
  In p (split_comma (header_field_values h name)).
Proof.
  intros Hk EF Hv Hp. unfold header_field_values. eapply split_join_piece; [|exact Hp].
  apply in_flat_map. exists (k, vs). split; [|exact Hv].
  apply filter_In. split; [now apply sort_header_in|exact EF].
Qed.

Lemma header_field_values_nil h name k vs v :
  header_field_values h name = [] -> In (k, vs) h -> equal_fold k name = true -> In v vs -> v = [].
Proof.
  intros H Hk EF Hv. unfold header_field_values in H. eapply join_comma_nil_iff; [exact H|].
  apply in_flat_map. exists (k, vs). split; [|exact Hv].
  apply filter_In. split; [now apply sort_header_in|exact EF].
Qed.

Theorem has_directive_field_line h name k vs v ds :
  ~ In [] ds ->
  In (k, vs) h -> equal_fold k name = true -> In v vs -> has_directive v ds = true ->
  has_directive (header_field_values h name) ds = true.
Proof.
  intros NE Hk EF Hv H. apply (has_directive_iff' _ _ NE) in H as (p & d & Hp & Hd & H).
  apply (has_directive_iff' _ _ NE). exists p, d. split; [|auto].
  eapply header_field_values_piece; eauto.
Qed.

(* ================================================================== *)
(** * Part D — the default policy decision table (TASK item 3)          *)
(* ================================================================== *)

Definition forbidden : list str := [s_no_cache; s_no_store; s_private].
Lemma forbidden_nonempty : ~ In [] forbidden.
Proof. unfold forbidden, s_no_cache, s_no_store, s_private. cbn [In]. intros [H|[H|[H|[]]]]; discriminate. Qed.

Theorem policy_method_gate p method status bodylen h exp :
  memZ (p_methods p) method = false -> default_policy p method status bodylen h exp = (false, 0, 0).
Proof. intros H. unfold default_policy. now rewrite H. Qed.

Theorem policy_status_gate p method status bodylen h exp :
  memZ (p_status p) status = false -> default_policy p method status bodylen h exp = (false, 0, 0).
Proof.
  intros H. unfold default_policy. rewrite H. destruct (negb (memZ (p_methods p) method)); reflexivity.
Qed.

Theorem policy_body_gate p method status bodylen h exp :
  p_limit p = true -> p_maxbody p < bodylen -> default_policy p method status bodylen h exp = (false, 0, 0).
Proof.
  intros L H. unfold default_policy. rewrite L. apply Z.ltb_lt in H. rewrite H.
  destruct (negb (memZ (p_methods p) method)); [reflexivity|].
  destruct (negb (memZ (p_status p) status)); reflexivity.
Qed.

Theorem policy_directive_gate p method status bodylen h exp :
  has_directive (header_field_values h s_cache_control) forbidden = true ->
  default_policy p method status bodylen h exp = (false, 0, 0).
Proof.
  intros H. unfold default_policy. fold forbidden. rewrite H.
  destruct (negb (memZ (p_methods p) method)); [reflexivity|].
  destruct (negb (memZ (p_status p) status)); [reflexivity|].
  destruct (p_limit p && (p_maxbody p <? bodylen)); reflexivity.
Qed.

(* any field line, of any spelling of the name Cache-Control, in which the code finds a forbidden directive *)
Theorem policy_directive_any_line p method status bodylen h exp k vs v :
  In (k, vs) h -> equal_fold k s_cache_control = true -> In v vs ->
  has_directive v forbidden = true ->
  default_policy p method status bodylen h exp = (false, 0, 0).
Proof.
  intros Hk EF Hv H. apply policy_directive_gate.
  eapply has_directive_field_line; eauto. apply forbidden_nonempty.
Qed.

Definition gates_pass (p : pconf) (method status bodylen : Z) (h : header) : Prop :=
  memZ (p_methods p) method = true /\ memZ (p_status p) status = true /\
  (p_limit p = true -> bodylen <= p_maxbody p) /\
  has_directive (header_field_values h s_cache_control) forbidden = false.

Lemma policy_pass_eq p method status bodylen h exp :
  gates_pass p method status bodylen h ->
  default_policy p method status bodylen h exp =
  let ma := extract_max_age (header_field_values h s_cache_control) in
  if 0 <? ma then (true, 1, ma)
  else match exp with
       | Some ttl => if 0 <? ttl then (true, 2, ttl) else (true, 3, p_defttl p)
       | None => (true, 3, p_defttl p)
       end.
Proof.
  intros (M & S & B & D). unfold default_policy. fold forbidden. rewrite M, S, D. cbn [negb].
  destruct (p_limit p) eqn:L; cbn [andb]; [|reflexivity].
  specialize (B eq_refl). apply Z.ltb_ge in B. now rewrite B.
Qed.

Theorem policy_max_age p method status bodylen h exp :
  gates_pass p method status bodylen h ->
  0 < extract_max_age (header_field_values h s_cache_control) ->
  default_policy p method status bodylen h exp =
  (true, 1, extract_max_age (header_field_values h s_cache_control)).
Proof. intros G H. rewrite policy_pass_eq by exact G. cbv zeta. apply Z.ltb_lt in H. now rewrite H. Qed.

Theorem policy_expires p method status bodylen h ttl :
  gates_pass p method status bodylen h ->
  extract_max_age (header_field_values h s_cache_control) <= 0 -> 0 < ttl ->
  default_policy p method status bodylen h (Some ttl) = (true, 2, ttl).
Proof.
  intros G H T. rewrite policy_pass_eq by exact G. cbv zeta. apply Z.ltb_ge in H. rewrite H.
  apply Z.ltb_lt in T. now rewrite T.
Qed.

Theorem policy_default_ttl p method status bodylen h exp :
  gates_pass p method status bodylen h ->
  extract_max_age (header_field_values h s_cache_control) <= 0 ->
  (exp = None \/ exists ttl, exp = Some ttl /\ ttl <= 0) ->
  default_policy p method status bodylen h exp = (true, 3, p_defttl p).
Proof.
  intros G H E. rewrite policy_pass_eq by exact G. cbv zeta. apply Z.ltb_ge in H. rewrite H.
  destruct E as [->|(ttl & -> & T)]; [reflexivity|]. apply Z.ltb_ge in T. now rewrite T.
Qed.

(* completeness of the table: a response is stored iff all four gates pass *)
Theorem policy_stored_iff p method status bodylen h exp :
  fst (fst (default_policy p method status bodylen h exp)) = true <-> gates_pass p method status bodylen h.
Proof.
  split.
  - intros H. unfold gates_pass.
    destruct (memZ (p_methods p) method) eqn:M; [|rewrite policy_method_gate in H by exact M; discriminate].
    destruct (memZ (p_status p) status) eqn:S; [|rewrite policy_status_gate in H by exact S; discriminate].
    destruct (has_directive (header_field_values h s_cache_control) forbidden) eqn:D;
      [rewrite policy_directive_gate in H by exact D; discriminate|].
    repeat split. intros L. destruct (Z_lt_le_dec (p_maxbody p) bodylen) as [B|B]; [|exact B].
    rewrite policy_body_gate in H by assumption. discriminate.
  - intros G. rewrite policy_pass_eq by exact G. cbv zeta.
    destruct (0 <? _); [reflexivity|]. destruct exp as [ttl|]; [|reflexivity]. destruct (0 <? ttl); reflexivity.
Qed.

(* kind 0 exactly when not stored; otherwise kind in 1..3 *)
Theorem policy_not_stored_shape p method status bodylen h exp :
  fst (fst (default_policy p method status bodylen h exp)) = false ->
  default_policy p method status bodylen h exp = (false, 0, 0).
Proof.
  intros H. unfold default_policy in *.
  destruct (negb (memZ (p_methods p) method)); [reflexivity|].
  destruct (negb (memZ (p_status p) status)); [reflexivity|].
  destruct (p_limit p && (p_maxbody p <? bodylen)); [reflexivity|].
  destruct (has_directive _ _); [reflexivity|]. cbv zeta in H.
  destruct (0 <? _); [discriminate|]. destruct exp as [ttl|]; [|discriminate]. destruct (0 <? ttl); discriminate.
Qed.

(* ================================================================== *)
(** * Part E — strconv.Atoi and extractMaxAge (TASK item 2)             *)
(* ================================================================== *)

Definition digits (ds : str) : Prop := Forall (fun c => is_digit c = true) ds.
Definition dec_step (a c : Z) : Z := a * 10 + (c - 48).
(* the decimal value of a digit string (Horner) *)
Definition dec (ds : str) : Z := fold_left dec_step ds 0.

Lemma digits_val_digits ds : forall acc, digits ds -> digits_val ds acc = Some (fold_left dec_step ds acc).
Proof.
  induction ds as [|c r IH]; intros acc D; cbn [digits_val fold_left]; [reflexivity|].
  inversion D as [|? ? Hc Hr]; subst. rewrite Hc. now apply IH.
Qed.
Lemma digits_val_some ds : forall acc v, digits_val ds acc = Some v -> digits ds.
Proof.
  induction ds as [|c r IH]; intros acc v H; [constructor|]. cbn [digits_val] in H.
  destruct (is_digit c) eqn:D; [|discriminate]. constructor; [exact D|exact (IH _ _ H)].
Qed.
Lemma dec_fold_mono ds : forall acc, digits ds -> 0 <= acc -> acc <= fold_left dec_step ds acc.
Proof.
  induction ds as [|c r IH]; intros acc D A; cbn [fold_left]; [lia|].
  inversion D as [|? ? Hc Hr]; subst. unfold is_digit in Hc.
  assert (acc <= dec_step acc c) by (unfold dec_step; lia).
  specialize (IH (dec_step acc c) Hr). lia.
Qed.
Lemma dec_nonneg ds : digits ds -> 0 <= dec ds.
Proof. intros D. apply (dec_fold_mono ds 0 D). lia. Qed.

Definition atoi_body (neg : bool) (ds : str) : option Z :=
  match ds with
  | [] => None
  | _ => match digits_val ds 0 with
         | Some v => let x := if neg then - v else v in
                     if (- two63 <=? x) && (x <? two63) then Some x else None
         | None => None
         end
  end.

Lemma atoi_eq s :
  atoi s = match s with
           | [] => None
           | c :: r => if c =? 43 then atoi_body false r else if c =? 45 then atoi_body true r
                       else atoi_body false s
           end.
Proof.
  destruct s as [|c r]; [reflexivity|].
  destruct (c =? 43) eqn:E1; [apply Z.eqb_eq in E1; subst c; reflexivity|].
  destruct (c =? 45) eqn:E2; [apply Z.eqb_eq in E2; subst c; reflexivity|].
  unfold atoi, atoi_body.
  destruct c as [|q|q]; try reflexivity.
  do 6 (destruct q as [q|q|]; try reflexivity; try (cbn in E1; discriminate); try (cbn in E2; discriminate)).
Qed.

Lemma atoi_body_digits neg ds :
  ds <> [] -> digits ds ->
  atoi_body neg ds = (if neg then (if dec ds <=? two63 then Some (- dec ds) else None)
                      else (if dec ds <? two63 then Some (dec ds) else None)).
Proof.
  intros NE D. unfold atoi_body. destruct ds as [|c r]; [congruence|].
  rewrite digits_val_digits by exact D. fold (dec (c :: r)). pose proof (dec_nonneg _ D) as P.
  cbv zeta. generalize dependent (dec (c :: r)). intros v P. clear - P. destruct neg.
  - destruct ((- two63 <=? - v) && (- v <? two63)) eqn:C; destruct (v <=? two63) eqn:E; try reflexivity;
      exfalso; unfold two63 in *; lia.
  - destruct ((- two63 <=? v) && (v <? two63)) eqn:C; destruct (v <? two63) eqn:E; try reflexivity;
      exfalso; unfold two63 in *; lia.
Qed.

Lemma digit_not_sign c : is_digit c = true -> (c =? 43) = false /\ (c =? 45) = false.
Proof. unfold is_digit. lia. Qed.

(* TASK 2: unsigned digit strings *)
Theorem atoi_digits ds :
  ds <> [] -> digits ds -> atoi ds = if dec ds <? two63 then Some (dec ds) else None.
Proof.
  intros NE D. rewrite atoi_eq. destruct ds as [|c r]; [congruence|].
  inversion D as [|? ? Hc Hr]; subst. destruct (digit_not_sign c Hc) as [-> ->].
  now rewrite atoi_body_digits.
Qed.
Theorem atoi_plus ds :
  ds <> [] -> digits ds -> atoi (43 :: ds) = if dec ds <? two63 then Some (dec ds) else None.
Proof. intros NE D. rewrite atoi_eq. cbn [Z.eqb Pos.eqb]. now rewrite atoi_body_digits. Qed.
Theorem atoi_minus ds :
  ds <> [] -> digits ds -> atoi (45 :: ds) = if dec ds <=? two63 then Some (- dec ds) else None.
Proof. intros NE D. rewrite atoi_eq. cbn [Z.eqb Pos.eqb]. now rewrite atoi_body_digits. Qed.

Lemma atoi_body_some neg ds x : atoi_body neg ds = Some x -> ds <> [] /\ digits ds.
Proof.
  unfold atoi_body. destruct ds as [|c r]; [discriminate|]. intros H. split; [discriminate|].
  destruct (digits_val (c :: r) 0) as [v|] eqn:E; [|discriminate]. eapply digits_val_some; eauto.
Qed.

(* anything that is not [sign] digit+ within range is rejected *)
Theorem atoi_some_inv s x :
  atoi s = Some x ->
  exists ds, ds <> [] /\ digits ds /\
    (((s = ds \/ s = 43 :: ds) /\ x = dec ds /\ 0 <= x < two63) \/
     (s = 45 :: ds /\ x = - dec ds /\ - two63 <= x <= 0)).
Proof.
  rewrite atoi_eq. destruct s as [|c r]; [discriminate|].
  destruct (c =? 43) eqn:E1; [|destruct (c =? 45) eqn:E2]; intros H;
    destruct (atoi_body_some _ _ _ H) as [NE D]; rewrite atoi_body_digits in H by assumption;
    pose proof (dec_nonneg _ D) as P.
  - apply Z.eqb_eq in E1; subst c. exists r. repeat split; try assumption. left.
    destruct (dec r <? two63) eqn:L; [|discriminate]. injection H as <-. apply Z.ltb_lt in L. auto.
  - apply Z.eqb_eq in E2; subst c. exists r. repeat split; try assumption. right.
    destruct (dec r <=? two63) eqn:L; [|discriminate]. injection H as <-. apply Z.leb_le in L.
    repeat split; lia.
  - exists (c :: r). repeat split; try assumption. left.
    destruct (dec (c :: r) <? two63) eqn:L; [|discriminate]. injection H as <-. apply Z.ltb_lt in L. auto.
Qed.
Corollary atoi_nil : atoi [] = None. Proof. reflexivity. Qed.
Corollary atoi_range s x : atoi s = Some x -> - two63 <= x < two63.
Proof.
  intros H. destruct (atoi_some_inv s x H) as (ds & _ & _ & [(_ & _ & R)|(_ & _ & R)]); unfold two63 in *; lia.
Qed.

(* ---- extractMaxAge ---- *)
Definition s_max_age : str := [109; 97; 120; 45; 97; 103; 101].
Definition piece_secs (p : str) : option Z :=
  let '(name, value, ok) := cut_eq (trim_space p) in
  if ok && equal_fold (trim_space name) s_max_age then atoi (trim_space value) else None.
Definition clamp_ns (secs : Z) : Z :=
  if max_int64 / second_ns <? secs then max_int64 else secs * second_ns.

Lemma max_age_parts_cons p r :
  max_age_parts (p :: r) =
  match piece_secs p with
  | Some s => if 0 <? s then clamp_ns s else max_age_parts r
  | None => max_age_parts r
  end.
Proof.
  cbn [max_age_parts]. unfold piece_secs, clamp_ns. fold s_max_age.
  destruct (cut_eq (trim_space p)) as [[name value] ok].
  destruct (ok && equal_fold (trim_space name) s_max_age); reflexivity.
Qed.

Definition skipped (p : str) : Prop :=
  match piece_secs p with Some s => s <= 0 | None => True end.

Theorem max_age_parts_skip skip r : Forall skipped skip -> max_age_parts (skip ++ r) = max_age_parts r.
Proof.
  induction 1 as [|p l Hp Hl IH]; [reflexivity|]. cbn [app]. rewrite max_age_parts_cons.
  unfold skipped in Hp. destruct (piece_secs p) as [s|]; [|exact IH].
  apply Z.ltb_ge in Hp. now rewrite Hp.
Qed.
Theorem max_age_parts_hit p r s :
  piece_secs p = Some s -> 0 < s -> max_age_parts (p :: r) = clamp_ns s.
Proof. intros H P. rewrite max_age_parts_cons, H. apply Z.ltb_lt in P. now rewrite P. Qed.

Lemma max_secs_value : max_int64 / second_ns = 9223372036. Proof. reflexivity. Qed.
Theorem clamp_ns_exact s : 1 <= s <= 9223372036 -> clamp_ns s = s * 1000000000.
Proof. intros H. unfold clamp_ns. rewrite max_secs_value. replace (9223372036 <? s) with false by lia. reflexivity. Qed.
Theorem clamp_ns_clamped s : 9223372036 < s -> clamp_ns s = max_int64.
Proof. intros H. unfold clamp_ns. rewrite max_secs_value. replace (9223372036 <? s) with true by lia. reflexivity. Qed.
Lemma clamp_ns_range s : 0 < s -> second_ns <= clamp_ns s <= max_int64.
Proof.
  intros H. unfold clamp_ns. rewrite max_secs_value. unfold max_int64, two63, second_ns.
  destruct (9223372036 <? s) eqn:E; lia.
Qed.

(* never negative, never a small positive (sub-second) value, never above MaxInt64 *)
Theorem max_age_parts_range ps : max_age_parts ps = 0 \/ second_ns <= max_age_parts ps <= max_int64.
Proof.
  induction ps as [|p r IH]; [now left|]. rewrite max_age_parts_cons.
  destruct (piece_secs p) as [s|]; [|exact IH]. destruct (0 <? s) eqn:E; [|exact IH].
  right. apply clamp_ns_range. lia.
Qed.
Theorem extract_max_age_range cc : extract_max_age cc = 0 \/ second_ns <= extract_max_age cc <= max_int64.
Proof. unfold extract_max_age. destruct cc; [now left|]. apply max_age_parts_range. Qed.
Corollary extract_max_age_nonneg cc : 0 <= extract_max_age cc.
Proof. destruct (extract_max_age_range cc) as [->|H]; [lia|]. unfold second_ns in H. lia. Qed.

(* ---- trimming and cutting ---- *)
Definition blanks (ws : str) : Prop := Forall (fun c => is_space c = true) ws.
Definition nospace (s : str) : Prop := Forall (fun c => is_space c = false) s.
(* no leading and no trailing white space *)
Definition tight (x : str) : Prop := drop_space x = x /\ drop_space (rev x) = rev x.

Lemma drop_space_blanks ws x : blanks ws -> drop_space (ws ++ x) = drop_space x.
Proof. induction 1 as [|c r Hc Hr IH]; [reflexivity|]. cbn [app drop_space]. now rewrite Hc. Qed.
Lemma drop_space_blanks_nil ws : blanks ws -> drop_space ws = [].
Proof. intros H. rewrite <- (app_nil_r ws). now rewrite drop_space_blanks. Qed.
Lemma drop_space_head a m : is_space a = false -> drop_space (a :: m) = a :: m.
Proof. intros H. cbn [drop_space]. now rewrite H. Qed.
Lemma blanks_rev ws : blanks ws -> blanks (rev ws). Proof. apply Forall_rev. Qed.
Lemma nospace_rev s : nospace s -> nospace (rev s). Proof. apply Forall_rev. Qed.
Lemma blanks_app a b : blanks a -> blanks b -> blanks (a ++ b).
Proof. intros A B. apply Forall_app; auto. Qed.
Lemma nospace_app a b : nospace a -> nospace b -> nospace (a ++ b).
Proof. intros A B. apply Forall_app; auto. Qed.
Lemma drop_space_nospace_app a y : nospace a -> a <> [] -> drop_space (a ++ y) = a ++ y.
Proof.
  intros N NE. destruct a as [|c r]; [congruence|]. inversion N; subst. cbn [app]. now apply drop_space_head.
Qed.
Lemma rev_nonnil (a : str) : a <> [] -> rev a <> [].
Proof. intros NE H. apply NE. rewrite <- (rev_involutive a), H. reflexivity. Qed.

Lemma tight_nil : tight []. Proof. split; reflexivity. Qed.
Lemma tight_ends a m b : nospace a -> a <> [] -> nospace b -> b <> [] -> tight (a ++ m ++ b).
Proof.
  intros Na NEa Nb NEb. split.
  - now apply drop_space_nospace_app.
  - rewrite app_assoc, rev_app_distr. apply drop_space_nospace_app; [now apply nospace_rev|now apply rev_nonnil].
Qed.
Lemma drop_space_nospace a : nospace a -> drop_space a = a.
Proof. intros N. destruct a as [|c r]; [reflexivity|]. inversion N; subst. now apply drop_space_head. Qed.
Lemma tight_nospace a : nospace a -> tight a.
Proof. intros N. split; apply drop_space_nospace; [exact N|now apply nospace_rev]. Qed.

Theorem trim_space_core ws0 x ws3 :
  blanks ws0 -> blanks ws3 -> tight x -> trim_space (ws0 ++ x ++ ws3) = x.
Proof.
  intros B0 B3 [T1 T2]. unfold trim_space. rewrite drop_space_blanks by exact B0.
  destruct x as [|c r].
  - cbn [app]. rewrite (drop_space_blanks_nil ws3) by exact B3. reflexivity.
  - assert (S : is_space c = false).
    { cbn [drop_space] in T1. destruct (is_space c) eqn:E; [|reflexivity]. exfalso.
      assert (L : (length (drop_space r) <= length r)%nat).
      { clear. induction r as [|d r IH]; cbn [drop_space]; [lia|]. destruct (is_space d); cbn [length]; lia. }
      rewrite T1 in L. cbn [length] in L. lia. }
    cbn [app]. rewrite drop_space_head by exact S. change (c :: r ++ ws3) with ((c :: r) ++ ws3).
    rewrite rev_app_distr, drop_space_blanks by (now apply blanks_rev). rewrite T2. apply rev_involutive.
Qed.
Corollary trim_space_left ws0 x : blanks ws0 -> tight x -> trim_space (ws0 ++ x) = x.
Proof. intros B T. rewrite <- (app_nil_r x) at 1. apply trim_space_core; [exact B|constructor|exact T]. Qed.
Corollary trim_space_right x ws3 : blanks ws3 -> tight x -> trim_space (x ++ ws3) = x.
Proof. intros B T. apply (trim_space_core [] x ws3); [constructor|exact B|exact T]. Qed.

Lemma cut_on_found sep a b : ~ In sep a -> forall acc, cut_on sep (a ++ sep :: b) acc = (rev acc ++ a, b, true).
Proof.
  induction a as [|c r IH]; intros NI acc; cbn [app cut_on].
  - rewrite Z.eqb_refl. now rewrite app_nil_r.
  - destruct (c =? sep) eqn:E; [apply Z.eqb_eq in E; subst; exfalso; apply NI; now left|].
    rewrite IH by (intros H; apply NI; now right). cbn [rev]. now rewrite <- app_assoc.
Qed.
Lemma cut_on_notfound sep a : ~ In sep a -> forall acc, cut_on sep a acc = (rev acc ++ a, [], false).
Proof.
  induction a as [|c r IH]; intros NI acc; cbn [cut_on].
  - now rewrite app_nil_r.
  - destruct (c =? sep) eqn:E; [apply Z.eqb_eq in E; subst; exfalso; apply NI; now left|].
    rewrite IH by (intros H; apply NI; now right). cbn [rev]. now rewrite <- app_assoc.
Qed.

Lemma blank_not c x : is_space c = true -> is_space x = false -> c <> x.
Proof. congruence. Qed.
Lemma blanks_notin ws x : blanks ws -> is_space x = false -> ~ In x ws.
Proof. intros B N H. unfold blanks in B. rewrite Forall_forall in B. specialize (B x H). congruence. Qed.

(* names that fold to a lower-case token: no blanks, no '=' *)
Lemma lower_lc c y : lower c = y -> (97 <= y <= 122 \/ y = 45) -> is_space c = false /\ c <> 61 /\ c <> 44.
Proof. unfold lower, is_space. intros H R. destruct ((65 <=? c) && (c <=? 90)) eqn:E; lia. Qed.
Lemma fold_lc name l :
  map lower name = l -> Forall (fun y => 97 <= y <= 122 \/ y = 45) l ->
  nospace name /\ ~ In 61 name /\ ~ In 44 name.
Proof.
  revert l. induction name as [|c r IH]; intros l M F.
  - repeat split; [constructor|intros []|intros []].
  - destruct l as [|y l]; [discriminate|]. cbn [map] in M. injection M as M1 M2. inversion F; subst.
    destruct (IH _ eq_refl H2) as (A & B & C). destruct (lower_lc c _ eq_refl H1) as (S & E & K).
    repeat split; [constructor; assumption| |]; intros [H|H]; auto.
Qed.
Lemma fold_max_age name :
  equal_fold name s_max_age = true -> name <> [] /\ nospace name /\ ~ In 61 name /\ ~ In 44 name.
Proof.
  intros H. apply equal_fold_iff in H. split; [intros ->; discriminate|].
  eapply fold_lc; [exact H|]. cbn. repeat constructor; lia.
Qed.

Lemma digits_nospace ds : digits ds -> nospace ds.
Proof. apply Forall_impl. intros c. unfold is_digit, is_space. lia. Qed.

(* a max-age piece: OWS name OWS "=" OWS value OWS *)
Theorem piece_secs_max_age ws0 name ws1 ws2 val ws3 :
  blanks ws0 -> blanks ws1 -> blanks ws2 -> blanks ws3 ->
  equal_fold name s_max_age = true -> nospace val -> val <> [] ->
  piece_secs (ws0 ++ name ++ ws1 ++ [61] ++ ws2 ++ val ++ ws3) = atoi val.
Proof.
  intros B0 B1 B2 B3 EF NV NEV. destruct (fold_max_age name EF) as (NEN & NN & N61 & _).
  unfold piece_secs.
  replace (ws0 ++ name ++ ws1 ++ [61] ++ ws2 ++ val ++ ws3)
    with (ws0 ++ (name ++ (ws1 ++ [61] ++ ws2) ++ val) ++ ws3) by (now rewrite <- !app_assoc).
  rewrite trim_space_core; [|assumption|assumption|now apply tight_ends].
  unfold cut_eq.
  replace (name ++ (ws1 ++ [61] ++ ws2) ++ val) with ((name ++ ws1) ++ 61 :: (ws2 ++ val))
    by (cbn [app]; now rewrite <- !app_assoc).
  rewrite cut_on_found.
  2:{ intros H. apply in_app_or in H as [H|H]; [now apply N61|]. revert H. apply blanks_notin; [assumption|reflexivity]. }
  cbn [rev app]. rewrite trim_space_right by (assumption || now apply tight_nospace).
  rewrite EF. cbn [andb]. rewrite trim_space_left by (assumption || now apply tight_nospace). reflexivity.
Qed.

(* a piece without '=' or whose name is not max-age is skipped *)
Theorem piece_secs_other p :
  (~ In 61 p \/ equal_fold (trim_space (upto 61 (trim_space p))) s_max_age = false) -> piece_secs p = None.
Proof.
  intros H. unfold piece_secs, cut_eq. pose proof (cut_on_fst 61 (trim_space p) []) as F.
  destruct (cut_on 61 (trim_space p) []) as [[nm af] ok] eqn:E. cbn [fst rev app] in F. subst nm.
  destruct H as [H|H].
  - assert (N : ~ In 61 (trim_space p)).
    { intros I. apply H. unfold trim_space in I. apply in_rev in I.
      assert (D : forall s x, In x (drop_space s) -> In x s).
      { clear. induction s as [|c r IH]; intros x; cbn [drop_space]; [auto|]. destruct (is_space c); [right; auto|auto]. }
      apply D in I. apply in_rev in I. now apply D in I. }
    rewrite cut_on_notfound in E by exact N. injection E as _ _ <-. reflexivity.
  - rewrite H. now rewrite andb_false_r.
Qed.

Lemma extract_max_age_eq cc : extract_max_age cc = max_age_parts (split_comma cc).
Proof. destruct cc; reflexivity. Qed.

Definition nocomma (p : str) : Prop := ~ In 44 p.
Lemma split_comma_nocomma p : nocomma p -> split_comma p = [p].
Proof.
  induction p as [|c r IH]; intros N; [reflexivity|]. rewrite split_comma_cons.
  destruct (c =? 44) eqn:E; [apply Z.eqb_eq in E; subst; exfalso; apply N; now left|].
  rewrite IH; [reflexivity|]. intros H; apply N; now right.
Qed.
Lemma split_join_nocomma ps : ps <> [] -> Forall nocomma ps -> split_comma (join_comma ps) = ps.
Proof.
  induction ps as [|p r IH]; intros NE F; [congruence|]. inversion F as [|? ? Hp Hr]; subst.
  destruct r as [|q r]; [now apply split_comma_nocomma|].
  rewrite join_comma_cons2, split_comma_app, split_comma_nocomma by exact Hp.
  rewrite IH; [reflexivity|discriminate|exact Hr].
Qed.

(* TASK 2, end to end: the first max-age piece with a positive in-range argument decides *)
Theorem extract_max_age_spec skip rest ws0 name ws1 ws2 ds ws3 :
  let p := ws0 ++ name ++ ws1 ++ [61] ++ ws2 ++ ds ++ ws3 in
  Forall nocomma (skip ++ p :: rest) -> Forall skipped skip ->
  blanks ws0 -> blanks ws1 -> blanks ws2 -> blanks ws3 ->
  equal_fold name s_max_age = true -> ds <> [] -> digits ds ->
  let r := extract_max_age (join_comma (skip ++ p :: rest)) in
  (1 <= dec ds <= 9223372036 -> r = dec ds * 1000000000) /\
  (9223372036 < dec ds < two63 -> r = max_int64) /\
  (dec ds = 0 \/ two63 <= dec ds -> r = max_age_parts rest).
Proof.
  intros p NC SK B0 B1 B2 B3 EF NE D r.
  assert (R : r = match atoi ds with Some s => if 0 <? s then clamp_ns s else max_age_parts rest
                                | None => max_age_parts rest end).
  { subst r. rewrite extract_max_age_eq, split_join_nocomma; [|now destruct skip|exact NC].
    rewrite max_age_parts_skip by exact SK. rewrite max_age_parts_cons. subst p.
    rewrite piece_secs_max_age; auto. now apply digits_nospace. }
  rewrite atoi_digits in R by assumption. clearbody r. clear - R. unfold two63 in *.
  repeat split; intros H.
  - replace (dec ds <? 9223372036854775808) with true in R by lia.
    replace (0 <? dec ds) with true in R by lia. rewrite R. apply clamp_ns_exact. lia.
  - replace (dec ds <? 9223372036854775808) with true in R by lia.
    replace (0 <? dec ds) with true in R by lia. rewrite R. apply clamp_ns_clamped. lia.
  - destruct (dec ds <? 9223372036854775808) eqn:E; [|exact R].
    replace (0 <? dec ds) with false in R by lia. exact R.
Qed.

Example extract_max_age_demo :
  (* "no-transform, MAX-Age = 0, max-age=60 , max-age=5" *)
  extract_max_age [110;111;45;116;114;97;110;115;102;111;114;109;44;32;77;65;88;45;65;103;101;32;61;32;48;44;32;
                   109;97;120;45;97;103;101;61;54;48;32;44;32;109;97;120;45;97;103;101;61;53] = 60 * 1000000000
  /\ (* "max-age=9223372037" is clamped *)
  extract_max_age [109;97;120;45;97;103;101;61;57;50;50;51;51;55;50;48;51;55] = max_int64
  /\ (* "max-age=9223372036854775808" overflows Atoi and is skipped *)
  extract_max_age [109;97;120;45;97;103;101;61;57;50;50;51;51;55;50;48;51;54;56;53;52;55;55;53;56;48;56] = 0.
Proof. vm_compute. auto. Qed.

(* ================================================================== *)
(** * Part F — RFC 9111 specification of "v carries directive d" and soundness (TASK item 1) *)
(* ================================================================== *)

(* RFC 9110 tchar *)
Definition is_tchar (c : Z) : bool :=
  ((48 <=? c) && (c <=? 57)) || ((65 <=? c) && (c <=? 90)) || ((97 <=? c) && (c <=? 122)) ||
  existsb (Z.eqb c) [33; 35; 36; 37; 38; 39; 42; 43; 45; 46; 94; 95; 96; 124; 126].
Definition token (s : str) : Prop := s <> [] /\ Forall (fun c => is_tchar c = true) s.

(* quoted-string = DQUOTE *( qdtext / quoted-pair ) DQUOTE : inside, a DQUOTE only occurs escaped by a backslash *)
Fixpoint qbody (s : str) (esc : bool) : bool :=
  match s with
  | [] => negb esc
  | c :: r => if esc then qbody r false else if c =? 92 then qbody r true else if c =? 34 then false else qbody r false
  end.
Definition quoted (s : str) : Prop := exists body, s = 34 :: body ++ [34] /\ qbody body false = true.

(* quote-aware list splitting: commas separate elements only outside double-quoted strings;
   inq = inside a quoted string, esc = the previous byte was an unescaped backslash inside quotes *)
Fixpoint qsplit (s : str) (inq esc : bool) : list str :=
  match s with
  | [] => [[]]
  | c :: r =>
    if negb inq && (c =? 44) then [] :: qsplit r false false
    else
      let inq' := if inq then (if esc then true else negb (c =? 34)) else (c =? 34) in
      let esc' := inq && negb esc && (c =? 92) in
      match qsplit r inq' esc' with
      | p :: ps => (c :: p) :: ps
      | [] => [[c]]
      end
  end.
Definition elements (v : str) : list str := qsplit v false false.

(* name equality ignoring ASCII case *)
Definition same_fold (a b : str) : Prop := map lower a = map lower b.

(* the element e, up to optional white space, is  name  or  name = argument *)
Definition element_is (d e : str) : Prop :=
  exists ws0 name rest,
    e = ws0 ++ name ++ rest /\ blanks ws0 /\ token name /\ same_fold name d /\
    (blanks rest \/
     exists ws1 ws2 arg ws3,
       rest = ws1 ++ [61] ++ ws2 ++ arg ++ ws3 /\ blanks ws1 /\ blanks ws2 /\ blanks ws3 /\ (token arg \/ quoted arg)).

Definition carries (d v : str) : Prop := exists e, In e (elements v) /\ element_is d e.

(* ---- every element starts with a comma piece ---- *)
Lemma qsplit_pieces s : forall inq esc,
  match qsplit s inq esc, split_comma s with
  | p :: ps, p0 :: ps0 => upto 44 p = p0 /\ forall e, In e ps -> In (upto 44 e) ps0
  | _, _ => False
  end.
Proof.
  induction s as [|c r IH]; intros inq esc.
  - cbn [qsplit]. rewrite split_comma_nil. split; [reflexivity|intros e H; destruct H].
  - cbn [qsplit]. rewrite split_comma_cons.
    destruct (negb inq && (c =? 44)) eqn:SP.
    + apply andb_true_iff in SP as [_ C]. rewrite C. specialize (IH false false).
      destruct (qsplit r false false) as [|p ps]; [contradiction|].
      destruct (split_comma r) as [|p0 ps0]; [contradiction|]. destruct IH as [H1 H2].
      split; [reflexivity|]. intros e [<-|He]; [now left|right; auto].
    + cbv zeta.
      specialize (IH (if inq then if esc then true else negb (c =? 34) else c =? 34) (inq && negb esc && (c =? 92))).
      destruct (qsplit r _ _) as [|p ps]; [contradiction|].
      destruct (split_comma r) as [|p0 ps0]; [contradiction|]. destruct IH as [H1 H2].
      destruct (c =? 44) eqn:C.
      * split; [cbn [upto]; now rewrite C|]. intros e He. right. auto.
      * split; [cbn [upto]; rewrite C; now rewrite H1|]. intros e He. auto.
Qed.

Lemma element_first_piece v e : In e (elements v) -> In (upto 44 e) (split_comma v).
Proof.
  intros H. unfold elements in H. pose proof (qsplit_pieces v false false) as Q.
  destruct (qsplit v false false) as [|p ps]; [contradiction|].
  destruct (split_comma v) as [|p0 ps0]; [contradiction|]. destruct Q as [Q1 Q2].
  destruct H as [<-|H]; [now left|right; auto].
Qed.

(* ---- the first comma piece of an element has the element's name as its directive name ---- *)
Lemma tchar_facts c : is_tchar c = true -> is_space c = false /\ c <> 61 /\ c <> 44.
Proof.
  unfold is_tchar, is_space. cbn [existsb]. intros H.
  repeat (apply orb_true_iff in H as [H|H]); try lia.
Qed.
Lemma token_facts name : token name -> name <> [] /\ nospace name /\ ~ In 61 name /\ ~ In 44 name.
Proof.
  intros [NE F]. split; [exact NE|]. clear NE. induction F as [|c r Hc Hr IH].
  - repeat split; [constructor|intros []|intros []].
  - destruct IH as (A & B & C). destruct (tchar_facts c Hc) as (S & E & K).
    repeat split; [constructor; assumption| |]; intros [H|H]; auto.
Qed.

Lemma upto_app_notin sep a b : ~ In sep a -> upto sep (a ++ b) = a ++ upto sep b.
Proof.
  induction a as [|c r IH]; intros N; [reflexivity|]. cbn [app upto].
  destruct (c =? sep) eqn:E; [apply Z.eqb_eq in E; subst; exfalso; apply N; now left|].
  rewrite IH; [reflexivity|]. intros H; apply N; now right.
Qed.
Lemma upto_notin sep a : ~ In sep a -> upto sep a = a.
Proof. intros N. rewrite <- (app_nil_r a) at 1. rewrite upto_app_notin by exact N. cbn. apply app_nil_r. Qed.
Lemma upto_hit sep a b : ~ In sep a -> upto sep (a ++ sep :: b) = a.
Proof. intros N. rewrite upto_app_notin by exact N. cbn [upto]. rewrite Z.eqb_refl. apply app_nil_r. Qed.

(* right-trimming never eats past a non-blank byte *)
Lemma drop_space_keep l b m : is_space b = false -> exists l2, drop_space (l ++ b :: m) = l2 ++ b :: m.
Proof.
  intros NB. induction l as [|c r [l2 IH]]; cbn [app drop_space].
  - rewrite NB. now exists [].
  - destruct (is_space c); [eauto|]. now exists (c :: r).
Qed.
Lemma trim_space_keep ws0 a b t :
  blanks ws0 -> nospace a -> a <> [] -> is_space b = false ->
  exists t', trim_space (ws0 ++ a ++ b :: t) = a ++ b :: t'.
Proof.
  intros B0 NA NE NB. unfold trim_space. rewrite drop_space_blanks by exact B0.
  rewrite drop_space_nospace_app by assumption.
  rewrite rev_app_distr. cbn [rev]. rewrite <- app_assoc. cbn [app].
  destruct (drop_space_keep (rev t) b (rev a) NB) as [l2 ->].
  exists (rev l2). rewrite rev_app_distr. cbn [rev]. rewrite rev_involutive, <- app_assoc. reflexivity.
Qed.

Lemma element_directive_name d e :
  element_is d e -> equal_fold (trim_space (upto 61 (trim_space (upto 44 e)))) d = true.
Proof.
  intros (ws0 & name & rest & -> & B0 & TK & SF & R).
  destruct (token_facts name TK) as (NE & NN & N61 & N44).
  assert (N44' : ~ In 44 (ws0 ++ name)).
  { intros H. apply in_app_or in H as [H|H]; [|now apply N44]. revert H. apply blanks_notin; [assumption|reflexivity]. }
  apply equal_fold_iff. fold (same_fold (trim_space (upto 61 (trim_space (upto 44 (ws0 ++ name ++ rest))))) d).
  replace (trim_space (upto 61 (trim_space (upto 44 (ws0 ++ name ++ rest))))) with name; [exact SF|].
  destruct R as [BR|(ws1 & ws2 & arg & ws3 & -> & B1 & B2 & B3 & _)].
  - rewrite (upto_notin 44).
    2:{ rewrite app_assoc. intros H. apply in_app_or in H as [H|H]; [now apply N44'|].
        revert H. apply blanks_notin; [assumption|reflexivity]. }
    rewrite trim_space_core by (assumption || now apply tight_nospace).
    rewrite upto_notin by exact N61. symmetry. apply (trim_space_left [] name); [constructor|now apply tight_nospace].
  - replace (ws0 ++ name ++ ws1 ++ [61] ++ ws2 ++ arg ++ ws3)
      with ((ws0 ++ name ++ ws1) ++ 61 :: (ws2 ++ arg ++ ws3)) by (cbn [app]; now rewrite <- !app_assoc).
    rewrite (upto_app_notin 44).
    2:{ rewrite app_assoc. intros H. apply in_app_or in H as [H|H]; [now apply N44'|].
        revert H. apply blanks_notin; [assumption|reflexivity]. }
    cbn [upto]. change (61 =? 44) with false. cbv iota.
    rewrite <- !app_assoc.
    replace (name ++ ws1 ++ 61 :: upto 44 (ws2 ++ arg ++ ws3)) with (name ++ (ws1 ++ 61 :: upto 44 (ws2 ++ arg ++ ws3))) by reflexivity.
    assert (K : exists t', trim_space (ws0 ++ name ++ ws1 ++ 61 :: upto 44 (ws2 ++ arg ++ ws3)) = (name ++ ws1) ++ 61 :: t').
    { unfold trim_space. rewrite drop_space_blanks by exact B0.
      rewrite drop_space_nospace_app by assumption.
      replace (name ++ ws1 ++ 61 :: upto 44 (ws2 ++ arg ++ ws3))
        with ((name ++ ws1) ++ 61 :: upto 44 (ws2 ++ arg ++ ws3)) by now rewrite <- app_assoc.
      rewrite rev_app_distr. cbn [rev]. rewrite <- app_assoc. cbn [app].
      destruct (drop_space_keep (rev (upto 44 (ws2 ++ arg ++ ws3))) 61 (rev (name ++ ws1)) eq_refl) as [l2 ->].
      exists (rev l2). rewrite rev_app_distr. cbn [rev]. rewrite rev_involutive, <- app_assoc. reflexivity. }
    destruct K as [t' ->].
    rewrite upto_hit.
    2:{ intros H. apply in_app_or in H as [H|H]; [now apply N61|]. revert H. apply blanks_notin; [assumption|reflexivity]. }
    symmetry. apply trim_space_right; [assumption|now apply tight_nospace].
Qed.

(* TASK 1: soundness — the code finds every directive the value carries (it may find more) *)
Theorem carries_sound d v : carries d v -> has_directive v [d] = true.
Proof.
  intros (e & He & EI). apply has_directive_iff. split.
  - intros ->. cbn in He. destruct He as [<-|[]].
    destruct EI as (ws0 & name & rest & E & _ & [NE _] & _). destruct ws0; [destruct name; [congruence|discriminate]|discriminate].
  - exists (upto 44 e), d. split; [now apply element_first_piece|]. split; [now left|].
    now apply element_directive_name.
Qed.

Theorem carries_sound_list d ds v : In d ds -> carries d v -> has_directive v ds = true.
Proof.
  intros Hd C. apply carries_sound in C. apply has_directive_iff in C as (NE & p & d' & Hp & [<-|[]] & H).
  apply has_directive_iff. split; [exact NE|]. exists p, d. auto.
Qed.

(* TASK 3, in terms of the specification: ANY field line of ANY spelling of Cache-Control that carries
   no-cache / no-store / private prevents storing *)
Theorem policy_carries_any_line p method status bodylen h exp k vs v d :
  In (k, vs) h -> equal_fold k s_cache_control = true -> In v vs ->
  In d forbidden -> carries d v ->
  default_policy p method status bodylen h exp = (false, 0, 0).
Proof.
  intros Hk EF Hv Hd C. eapply policy_directive_any_line; eauto. eapply carries_sound_list; eauto.
Qed.

Corollary carries_field_line h name k vs v d ds :
  ~ In [] ds -> In (k, vs) h -> equal_fold k name = true -> In v vs -> In d ds -> carries d v ->
  has_directive (header_field_values h name) ds = true.
Proof.
  intros NE Hk EF Hv Hd C. eapply has_directive_field_line; eauto. eapply carries_sound_list; eauto.
Qed.

(* ---- non-vacuity and strictness of the specification ---- *)
Lemma blanks_nil : blanks []. Proof. constructor. Qed.
Lemma token_of s : s <> [] -> forallb is_tchar s = true -> token s.
Proof. intros NE H. split; [exact NE|]. apply Forall_forall. intros c Hc. rewrite forallb_forall in H. auto. Qed.

(* "max-age=5, No-Store" carries no-store *)
Example carries_demo_plain :
  carries s_no_store [109;97;120;45;97;103;101;61;53;44;32;78;111;45;83;116;111;114;101].
Proof.
  exists [32;78;111;45;83;116;111;114;101]. split; [vm_compute; auto|].
  exists [32], [78;111;45;83;116;111;114;101], []. repeat split.
  - repeat constructor.
  - discriminate.
  - apply Forall_forall. apply forallb_forall. reflexivity.
  - left. constructor.
Qed.

(* private="a,b" , x  carries private: the comma inside the quoted string does not separate *)
Example carries_demo_quoted :
  carries s_private [112;114;105;118;97;116;101;61;34;97;44;98;34;32;44;32;120].
Proof.
  exists [112;114;105;118;97;116;101;61;34;97;44;98;34;32]. split; [vm_compute; auto|].
  exists [], s_private, [61;34;97;44;98;34;32]. repeat split.
  - constructor.
  - discriminate.
  - apply Forall_forall. apply forallb_forall. reflexivity.
  - right. exists [], [], [34;97;44;98;34], [32].
    split; [reflexivity|]. split; [constructor|]. split; [constructor|]. split; [repeat constructor|].
    right. exists [97;44;98]. split; reflexivity.
Qed.

Lemma not_carries_single d v c e' :
  elements v = [c :: e'] -> is_space c = false -> (forall x d', d = x :: d' -> lower c <> lower x) -> d <> [] ->
  ~ carries d v.
Proof.
  intros EL NS ND NE (e & He & ws0 & name & rest & E & B0 & [NN _] & SF & _).
  rewrite EL in He. destruct He as [<-|[]].
  destruct ws0 as [|w ws0].
  - destruct name as [|a name]; [congruence|]. cbn [app] in E. injection E as -> _.
    destruct d as [|x d']; [congruence|]. unfold same_fold in SF. cbn [map] in SF. injection SF as SF _.
    now apply (ND x d' eq_refl).
  - cbn [app] in E. injection E as -> _. inversion B0; subst. congruence.
Qed.

(* the implementation is strictly more conservative than the specification:
   a="x,no-store,y"  does not carry no-store, yet has_directive reports it (the response is just not cached) *)
Example conservative_inside_quotes :
  let v := [97;61;34;120;44;110;111;45;115;116;111;114;101;44;121;34] in
  ~ carries s_no_store v /\ has_directive v [s_no_store] = true.
Proof.
  cbv zeta. split; [|reflexivity].
  eapply not_carries_single; [vm_compute; reflexivity|reflexivity| |discriminate].
  intros x d' E. injection E as <- _. vm_compute. discriminate.
Qed.

(* REFUTED: "a directive carried by one line's value is carried by the joined value" is false for the
   specification when an earlier line has an unbalanced quote:  lines  a="x  and  no-store  join to
   a="x,no-store  which is one (malformed) element.  The code is unaffected: it works on comma pieces,
   and [carries_field_line] above shows the joined value is still rejected. *)
Example carries_join_refuted :
  let vs := [[97;61;34;120]; s_no_store] in
  carries s_no_store s_no_store /\ In s_no_store vs /\ ~ carries s_no_store (join_comma vs) /\
  has_directive (join_comma vs) [s_no_store] = true.
Proof.
  cbv zeta. repeat split.
  - exists s_no_store. split; [vm_compute; auto|]. exists [], s_no_store, []. repeat split.
    + constructor.
    + discriminate.
    + apply Forall_forall. apply forallb_forall. reflexivity.
    + left. constructor.
  - right. now left.
  - eapply not_carries_single; [vm_compute; reflexivity|reflexivity| |discriminate].
    intros x d' E. injection E as <- _. vm_compute. discriminate.
Qed.

(* ================================================================== *)
(** * Part G — a hit replays the origin response faithfully (TASK item 7) *)
(* ================================================================== *)

(* ---- canonicalisation only changes letter case ---- *)
Lemma canon_from_lower s : forall up, map lower (canon_from s up) = map lower s.
Proof.
  induction s as [|c r IH]; intros up; [reflexivity|]. cbn [canon_from map]. rewrite IH. f_equal.
  unfold lower, is_lower, is_upper. destruct up.
  - destruct ((97 <=? c) && (c <=? 122)) eqn:E1; [|reflexivity].
    destruct ((65 <=? c - 32) && (c - 32 <=? 90)) eqn:E2; destruct ((65 <=? c) && (c <=? 90)) eqn:E3; lia.
  - destruct ((65 <=? c) && (c <=? 90)) eqn:E1; [|now rewrite E1].
    destruct ((65 <=? c + 32) && (c + 32 <=? 90)) eqn:E2; lia.
Qed.
Lemma canon_lower k : map lower (canon k) = map lower k.
Proof. apply canon_from_lower. Qed.
Lemma equal_fold_canon k ig : equal_fold (canon k) ig = equal_fold k ig.
Proof. unfold equal_fold. now rewrite canon_lower. Qed.
Lemma canon_eq_fold k k' : canon k = canon k' -> equal_fold k k' = true.
Proof. intros H. apply equal_fold_iff. rewrite <- (canon_lower k), <- (canon_lower k'). now rewrite H. Qed.

(* ---- the bytewise key order is a total preorder ---- *)
Lemma str_leb_total a : forall b, str_leb a b = false -> str_leb b a = true.
Proof.
  induction a as [|x a IH]; intros [|y b]; cbn [str_leb]; try discriminate; try reflexivity.
  destruct (x <? y) eqn:E1; [discriminate|]. destruct (y <? x) eqn:E2; [reflexivity|]. apply IH.
Qed.
Lemma str_leb_trans a : forall b c, str_leb a b = true -> str_leb b c = true -> str_leb a c = true.
Proof.
  induction a as [|x a IH]; intros [|y b] [|z c]; cbn [str_leb]; try discriminate; try reflexivity.
  destruct (x <? y) eqn:E1; destruct (y <? x) eqn:E2; try discriminate;
  destruct (y <? z) eqn:E3; destruct (z <? y) eqn:E4; try discriminate;
  destruct (x <? z) eqn:E5; try reflexivity; destruct (z <? x) eqn:E6; try (intros; lia).
  apply IH.
Qed.

Fixpoint hsorted (l : header) : Prop :=
  match l with
  | [] => True
  | x :: r => Forall (fun y => str_leb (fst x) (fst y) = true) r /\ hsorted r
  end.

Lemma insert_key_sorted k l : hsorted l -> hsorted (insert_key k l).
Proof.
  induction l as [|h r IH]; intros S; cbn [insert_key].
  - cbn. auto.
  - destruct S as [F S]. destruct (str_leb (fst k) (fst h)) eqn:E.
    + cbn [hsorted]. repeat split; try assumption. constructor; [exact E|].
      eapply Forall_impl; [|exact F]. intros y Hy. eapply str_leb_trans; eauto.
    + cbn [hsorted]. split; [|auto]. apply Forall_forall. intros y Hy. apply insert_key_in in Hy as [->|Hy].
      * now apply str_leb_total.
      * rewrite Forall_forall in F. auto.
Qed.
Lemma sort_header_sorted h : hsorted (sort_header h).
Proof. induction h as [|x r IH]; [exact I|]. cbn [sort_header fold_right]. now apply insert_key_sorted. Qed.

Lemma insert_key_front k l :
  (forall y, In y l -> str_leb (fst k) (fst y) = true) -> insert_key k l = k :: l.
Proof. destruct l as [|h r]; intros H; [reflexivity|]. cbn [insert_key]. rewrite H; [reflexivity|now left]. Qed.

Lemma insert_key_filter (f : str * list str -> bool) k l :
  hsorted l -> filter f (insert_key k l) = if f k then insert_key k (filter f l) else filter f l.
Proof.
  induction l as [|h r IH]; intros S; cbn [insert_key filter].
  - destruct (f k); reflexivity.
  - destruct S as [F S]. destruct (str_leb (fst k) (fst h)) eqn:E.
    + cbn [filter]. destruct (f k) eqn:Fk; [|reflexivity].
      rewrite insert_key_front; [reflexivity|].
      intros y Hy. assert (Hy' : In y (h :: r)).
      { destruct (f h); [destruct Hy as [<-|Hy]; [now left|right]|right]; apply filter_In in Hy; tauto. }
      destruct Hy' as [<-|Hy']; [exact E|]. rewrite Forall_forall in F. eapply str_leb_trans; eauto.
    + cbn [filter]. rewrite (IH S). destruct (f h) eqn:Fh; destruct (f k) eqn:Fk; try reflexivity.
      cbn [insert_key]. now rewrite E.
Qed.
Lemma sort_header_filter (f : str * list str -> bool) h :
  sort_header (filter f h) = filter f (sort_header h).
Proof.
  induction h as [|x r IH]; [reflexivity|]. cbn [filter sort_header fold_right]. fold (sort_header r).
  rewrite insert_key_filter by apply sort_header_sorted. destruct (f x); [|exact IH].
  cbn [sort_header fold_right]. fold (sort_header (filter f r)). now rewrite IH.
Qed.

(* ---- filtering by a predicate on keys commutes with the header-map operations ---- *)
Section KeyFilter.
  Variable P : str -> bool.
  Let keyP := fun kv : str * list str => P (fst kv).

  Lemma filter_hdel acc k : filter keyP (hdel acc k) = hdel (filter keyP acc) k.
  Proof.
    unfold hdel. induction acc as [|x r IH]; [reflexivity|]. cbn [filter].
    destruct (negb (str_eqb (fst x) k)) eqn:A; destruct (keyP x) eqn:B; cbn [filter]; rewrite ?A, ?B, IH; reflexivity.
  Qed.
  Lemma filter_hdel_out acc k : P k = false -> filter keyP (hdel acc k) = filter keyP acc.
  Proof.
    intros N. unfold hdel. induction acc as [|x r IH]; [reflexivity|]. cbn [filter].
    destruct (str_eqb (fst x) k) eqn:A; cbn [negb filter].
    - apply str_eqb_eq in A. unfold keyP at 2. rewrite A, N. exact IH.
    - now rewrite IH.
  Qed.
  Lemma hget_filter acc k : P k = true -> hget (filter keyP acc) k = hget acc k.
  Proof.
    intros T. unfold hget. induction acc as [|x r IH]; [reflexivity|]. cbn [filter find].
    destruct (str_eqb (fst x) k) eqn:A.
    - assert (B : keyP x = true) by (apply str_eqb_eq in A; unfold keyP; now rewrite A).
      rewrite B. cbn [find]. now rewrite A.
    - destruct (keyP x); [cbn [find]; now rewrite A|]; exact IH.
  Qed.
  Lemma filter_hset acc k X :
    filter keyP (hset acc k X) = if P k then hset (filter keyP acc) k X else filter keyP acc.
  Proof.
    unfold hset. rewrite filter_app. cbn [filter]. unfold keyP at 2. cbn [fst].
    destruct (P k) eqn:T.
    - now rewrite filter_hdel.
    - rewrite app_nil_r. now apply filter_hdel_out.
  Qed.

  Hypothesis P_canon : forall k, P (canon k) = P k.

  Lemma filter_merge_canon l : forall acc,
    filter keyP (merge_canon l acc) = merge_canon (filter keyP l) (filter keyP acc).
  Proof.
    induction l as [|[k vs] r IH]; intros acc; [reflexivity|]. cbn [merge_canon filter].
    rewrite IH, filter_hset, P_canon. change (keyP (k, vs)) with (P k).
    destruct (P k) eqn:T; [|reflexivity]. cbn [merge_canon].
    rewrite hget_filter; [reflexivity|]. now rewrite P_canon.
  Qed.

  Lemma filter_client_header h : filter keyP (client_header h) = client_header (filter keyP h).
  Proof. unfold client_header. now rewrite filter_merge_canon, sort_header_filter. Qed.
End KeyFilter.

Definition ci_ignored (ignore : list str) (k : str) : bool := existsb (fun ig => equal_fold k ig) ignore.
Lemma cached_headers_eq ignore h : cached_headers ignore h = filter (fun kv => negb (ci_ignored ignore (fst kv))) h.
Proof. reflexivity. Qed.
Lemma ci_ignored_canon ignore k : ci_ignored ignore (canon k) = ci_ignored ignore k.
Proof. unfold ci_ignored. induction ignore as [|ig r IH]; [reflexivity|]. cbn [existsb]. now rewrite equal_fold_canon, IH. Qed.
Lemma ci_ignored_fold ignore k k' : equal_fold k k' = true -> ci_ignored ignore k = ci_ignored ignore k'.
Proof.
  intros E. unfold ci_ignored. induction ignore as [|ig r IH]; [reflexivity|]. cbn [existsb]. rewrite IH. f_equal.
  apply equal_fold_iff in E. unfold equal_fold. now rewrite E.
Qed.

(* dropping ignored names commutes with what the client reads *)
Theorem cached_headers_client ignore h :
  cached_headers ignore (client_header h) = client_header (cached_headers ignore h).
Proof.
  rewrite !cached_headers_eq.
  apply (filter_client_header (fun k => negb (ci_ignored ignore k))). intros k. now rewrite ci_ignored_canon.
Qed.

Lemma cached_headers_idem ignore h : cached_headers ignore (cached_headers ignore h) = cached_headers ignore h.
Proof.
  rewrite !cached_headers_eq. induction h as [|x r IH]; [reflexivity|]. cbn [filter].
  destruct (negb (ci_ignored ignore (fst x))) eqn:E; [cbn [filter]; now rewrite E, IH|exact IH].
Qed.
Lemma cached_headers_hset ignore h k X :
  cached_headers ignore (hset h k X) =
  if ci_ignored ignore k then cached_headers ignore h else hset (cached_headers ignore h) k X.
Proof.
  rewrite !cached_headers_eq. rewrite (filter_hset (fun k => negb (ci_ignored ignore k))).
  destruct (ci_ignored ignore k); reflexivity.
Qed.
Lemma cached_headers_marked ignore miss h :
  (miss = [] \/ ci_ignored ignore miss = true) -> cached_headers ignore (marked miss h) = cached_headers ignore h.
Proof.
  intros [->|H]; [reflexivity|]. unfold marked. destruct miss as [|m mk]; [reflexivity|].
  now rewrite cached_headers_hset, H.
Qed.

(* what wrap_miss = (Some s, u) means *)
Lemma wrap_miss_some_inv p ignore miss method acts exp s u :
  wrap_miss p ignore miss method acts exp = (Some s, u) ->
  let c := fst (run_handler miss (p_maxbody p) (p_limit p) acts) in
  u = snd (run_handler miss (p_maxbody p) (p_limit p) acts) /\
  memZ (p_methods p) method = true /\ cacheable c = true /\
  default_policy p method (c_status c) (c_buflen c) (c_headers c) exp = (true, st_kind s, st_ttl s) /\
  st_status s = c_status c /\ st_hdr s = cached_headers ignore (c_headers c) /\ st_body s = c_buf c.
Proof.
  unfold wrap_miss. destruct (memZ (p_methods p) method) eqn:M; cbn [negb]; [|discriminate].
  destruct (run_handler miss (p_maxbody p) (p_limit p) acts) as [c u0]. cbn [fst snd].
  destruct (cacheable c) eqn:CA; cbn [negb]; [|discriminate].
  destruct (default_policy p method (c_status c) (c_buflen c) (c_headers c) exp) as [[ok kind] ttl].
  destruct ok; [|discriminate]. intros H. injection H as <- <-. cbn. auto 10.
Qed.

Lemma cacheable_no_hijack miss maxbody limit acts :
  cacheable (fst (run_handler miss maxbody limit acts)) = true -> ~ In AHijack acts.
Proof.
  unfold cacheable. rewrite run_handler_streamed. intros H HJ.
  assert (S : streams_from false acts = true) by (apply streams_from_false_iff; auto).
  rewrite S in H. discriminate.
Qed.

Definition client_of (r : Z * header * list (Z * Z)) : Z * header * list (Z * Z) :=
  let '(status, hdr, body) := r in (status, client_header hdr, if body_allowed status then body else []).

(* TASK 7: status and body are identical; the header maps the client reads agree once the ignored
   names (which include both markers) are dropped from both *)
Theorem replay_faithful p ignore miss hit method acts exp s u :
  wrap_miss p ignore miss method acts exp = (Some s, u) ->
  (miss = [] \/ ci_ignored ignore miss = true) -> ci_ignored ignore hit = true ->
  let '(st1, h1, b1) := client_of (replay s hit) in
  let '(st2, h2, b2) := client_of (u_status u, u_sent_hdr u, u_body u) in
  st1 = st2 /\ b1 = b2 /\ cached_headers ignore h1 = cached_headers ignore h2.
Proof.
  intros W IM IH. apply wrap_miss_some_inv in W. cbv zeta in W.
  destruct W as (-> & M & CA & _ & S1 & S2 & S3).
  pose proof (capture_faithful miss (p_maxbody p) (p_limit p) acts (cacheable_no_hijack _ _ _ _ CA)) as F.
  cbv zeta in F. destruct F as (_ & _ & _ & ST & SH & BD).
  set (c := fst (run_handler miss (p_maxbody p) (p_limit p) acts)) in *.
  set (u := snd (run_handler miss (p_maxbody p) (p_limit p) acts)) in *.
  unfold client_of, replay. rewrite S1, S2, S3, ST. split; [reflexivity|]. split.
  - destruct (body_allowed (c_status c)) eqn:BA; [|reflexivity]. symmetry. now apply BD.
  - rewrite !cached_headers_client. f_equal.
    fold (marked miss (c_headers c)) in SH. rewrite SH, cached_headers_marked by exact IM.
    rewrite cached_headers_eq, filter_app, <- !cached_headers_eq, cached_headers_idem.
    rewrite (cached_headers_eq ignore [(hit, [s_HIT])]). cbn [filter fst]. rewrite IH. cbn [negb]. apply app_nil_r.
Qed.

(* ---- the markers themselves ---- *)
Lemma hget_hset acc k X k' : hget (hset acc k X) k' = if str_eqb k k' then X else hget acc k'.
Proof.
  unfold hset, hdel, hget. induction acc as [|x r IH]; cbn [filter app find fst snd].
  - destruct (str_eqb k k'); reflexivity.
  - destruct (str_eqb (fst x) k) eqn:A; cbn [negb app find].
    + rewrite IH. apply str_eqb_eq in A. rewrite A. destruct (str_eqb k k'); reflexivity.
    + destruct (str_eqb (fst x) k') eqn:B.
      * destruct (str_eqb k k') eqn:C; [|reflexivity].
        apply str_eqb_eq in B, C. subst k'. rewrite <- B, str_eqb_refl in A. discriminate.
      * exact IH.
Qed.

Lemma hget_merge_canon l ck : forall acc,
  hget (merge_canon l acc) ck =
  hget acc ck ++ flat_map (fun kv => map wire_value (snd kv)) (filter (fun kv => str_eqb (canon (fst kv)) ck) l).
Proof.
  induction l as [|[k vs] r IH]; intros acc; cbn [merge_canon filter flat_map fst].
  - now rewrite app_nil_r.
  - rewrite IH, hget_hset. destruct (str_eqb (canon k) ck) eqn:E.
    + apply str_eqb_eq in E. subst ck. cbn [flat_map snd]. now rewrite <- !app_assoc.
    + reflexivity.
Qed.

Lemma filter_none {A} (f : A -> bool) l : (forall x, In x l -> f x = false) -> filter f l = [].
Proof.
  induction l as [|x r IH]; intros H; [reflexivity|]. cbn [filter]. rewrite (H x) by now left.
  apply IH. intros y Hy. apply H. now right.
Qed.

(* the hit carries exactly  hit: HIT *)
Theorem hit_marker ignore hd hit :
  ci_ignored ignore hit = true ->
  hget (client_header (cached_headers ignore hd ++ [(hit, [s_HIT])])) (canon hit) = [s_HIT].
Proof.
  intros IH. unfold client_header. rewrite hget_merge_canon. cbn [hget find app].
  rewrite <- sort_header_filter, filter_app. cbn [filter fst]. rewrite str_eqb_refl.
  rewrite filter_none; [reflexivity|].
  intros [k vs] Hk. cbn [fst]. destruct (str_eqb (canon k) (canon hit)) eqn:E; [|reflexivity]. exfalso.
  apply str_eqb_eq in E. apply canon_eq_fold in E.
  rewrite cached_headers_eq in Hk. apply filter_In in Hk as [_ Hk]. cbn [fst] in Hk.
  rewrite (ci_ignored_fold ignore k hit E), IH in Hk. discriminate.
Qed.

(* the miss carried  miss: MISS  (possibly next to values the handler itself set under another spelling) *)
Theorem miss_marker hd miss :
  In s_MISS (hget (client_header (hset hd miss [s_MISS])) (canon miss)).
Proof.
  unfold client_header. rewrite hget_merge_canon. cbn [hget find app].
  apply in_flat_map. exists (miss, [s_MISS]). split; [|now left].
  apply filter_In. split; [|cbn [fst]; apply str_eqb_refl].
  apply sort_header_in. unfold hset. apply in_or_app. right. now left.
Qed.

Corollary replay_markers p ignore miss hit method acts exp s u :
  wrap_miss p ignore miss method acts exp = (Some s, u) -> ci_ignored ignore hit = true ->
  hget (client_header (snd (fst (replay s hit)))) (canon hit) = [s_HIT] /\
  (miss <> [] -> In s_MISS (hget (client_header (u_sent_hdr u)) (canon miss))).
Proof.
  intros W IH. apply wrap_miss_some_inv in W. cbv zeta in W.
  destruct W as (-> & M & CA & _ & S1 & S2 & S3). split.
  - unfold replay. cbn [fst snd]. rewrite S2. now apply hit_marker.
  - intros NE.
    pose proof (capture_faithful miss (p_maxbody p) (p_limit p) acts (cacheable_no_hijack _ _ _ _ CA)) as F.
    cbv zeta in F. destruct F as (_ & _ & _ & _ & SH & _). rewrite SH.
    destruct miss as [|m mk]; [congruence|]. apply miss_marker.
Qed.

(* ---- additional corollaries ---- *)

(* TASK 4a in one statement *)
Theorem run_handler_streamed_iff miss maxbody limit acts :
  c_streamed (fst (run_handler miss maxbody limit acts)) = true <->
  In AFlush acts \/ In AHijack acts \/
  exists pre post, acts = pre ++ AWriteHeader 101 :: post /\ existsb commits pre = false.
Proof. rewrite run_handler_streamed. apply streams_from_false_iff. Qed.

(* which pieces extractMaxAge skips *)
Corollary skipped_other p :
  (~ In 61 p \/ equal_fold (trim_space (upto 61 (trim_space p))) s_max_age = false) -> skipped p.
Proof. intros H. unfold skipped. now rewrite piece_secs_other. Qed.
Corollary skipped_max_age_bad ws0 name ws1 ws2 val ws3 :
  blanks ws0 -> blanks ws1 -> blanks ws2 -> blanks ws3 ->
  equal_fold name s_max_age = true -> nospace val -> val <> [] ->
  (atoi val = None \/ exists s, atoi val = Some s /\ s <= 0) ->
  skipped (ws0 ++ name ++ ws1 ++ [61] ++ ws2 ++ val ++ ws3).
Proof.
  intros B0 B1 B2 B3 EF NV NE H. unfold skipped. rewrite piece_secs_max_age by assumption.
  destruct H as [->|(s & -> & H)]; [exact I|exact H].
Qed.

(* ================================================================== *)
(** * Part H — non-vacuity examples (TASK item 8)                       *)
(* ================================================================== *)

Definition ex_p : pconf :=
  {| p_methods := [1]; p_status := [200]; p_limit := true; p_maxbody := 8; p_defttl := 60 |}.
Definition ex_miss : str := [88; 45; 77].   (* X-M *)
Definition ex_hit : str := [88; 45; 72].    (* X-H *)
Definition ex_ignore : list str := [ex_miss; ex_hit].

(* 103 Early Hints, a header edit, implicit 200 through Write (8 bytes = exactly the limit),
   a late header edit after the commit, and an empty Write *)
Definition ex_at_limit : list action :=
  [AWriteHeader 103; HSet [65] [49]; AWrite 8 1; HSet [66] [50]; AWrite 0 2].
(* the same with one more byte *)
Definition ex_over_limit : list action :=
  [AWriteHeader 103; HSet [65] [49]; AWrite 8 1; HSet [66] [50]; AWrite 1 2].

Example ex_at_limit_stored :
  let '(st, u) := wrap_miss ex_p ex_ignore ex_miss 1 ex_at_limit None in
  st = Some {| st_status := 200; st_hdr := [([65], [[49]])]; st_body := [(8, 1)]; st_kind := 3; st_ttl := 60 |} /\
  u_committed u = true /\ u_status u = 200 /\
  u_sent_hdr u = [([65], [[49]]); (ex_miss, [s_MISS])] /\      (* the late edit of B is on neither side *)
  u_body u = [(8, 1)] /\ u_info u = [(103, [])].
Proof. vm_compute. repeat split; reflexivity. Qed.

Example ex_at_limit_capture :
  let c := fst (run_handler ex_miss 8 true ex_at_limit) in
  c_toolarge c = false /\ c_streamed c = false /\ c_buflen c = 8 /\ wsum ex_at_limit = 8 /\ cacheable c = true.
Proof. vm_compute. repeat split; reflexivity. Qed.

Example ex_over_limit_not_stored :
  let '(st, u) := wrap_miss ex_p ex_ignore ex_miss 1 ex_over_limit None in
  st = None /\ u_status u = 200 /\ u_body u = [(8, 1); (1, 2)] /\
  u_sent_hdr u = [([65], [[49]]); (ex_miss, [s_MISS])].
Proof. vm_compute. repeat split; reflexivity. Qed.

Example ex_over_limit_capture :
  let c := fst (run_handler ex_miss 8 true ex_over_limit) in
  c_toolarge c = true /\ c_buflen c = 8 /\ wsum ex_over_limit = 9 /\ cacheable c = false.
Proof. vm_compute. repeat split; reflexivity. Qed.

(* the hypotheses of the general theorems are satisfiable: instantiate them on the example *)
Example ex_replay :
  let '(st, u) := wrap_miss ex_p ex_ignore ex_miss 1 ex_at_limit None in
  match st with
  | Some s =>
      client_of (replay s ex_hit) = (200, [([65], [[49]]); (ex_hit, [s_HIT])], [(8, 1)]) /\
      client_of (u_status u, u_sent_hdr u, u_body u) = (200, [([65], [[49]]); (ex_miss, [s_MISS])], [(8, 1)])
  | None => False
  end.
Proof. vm_compute. split; reflexivity. Qed.

Example ex_replay_theorem_applies :
  exists s u, wrap_miss ex_p ex_ignore ex_miss 1 ex_at_limit None = (Some s, u) /\
              ci_ignored ex_ignore ex_miss = true /\ ci_ignored ex_ignore ex_hit = true /\
              ~ In AHijack ex_at_limit.
Proof.
  eexists; eexists. split; [vm_compute; reflexivity|]. split; [reflexivity|]. split; [reflexivity|].
  unfold ex_at_limit. cbn [In]. intros [H|[H|[H|[H|[H|[]]]]]]; discriminate.
Qed.

(* switching protocols: 101 as the committing status streams; a superfluous 101 after 200 does not *)
Example ex_upgrade :
  fst (wrap_miss ex_p ex_ignore ex_miss 1 [AWriteHeader 101] None) = None /\
  c_streamed (fst (run_handler ex_miss 8 true [AWriteHeader 101])) = true /\
  c_streamed (fst (run_handler ex_miss 8 true [AWriteHeader 200; AWriteHeader 101])) = false /\
  c_streamed (fst (run_handler ex_miss 8 true [AWriteHeader 103; AWriteHeader 101])) = true.
Proof. vm_compute. repeat split; reflexivity. Qed.

(* item 6 needs the no-Hijack hypothesis: after Hijack the capturing writer believes it wrote,
   but nothing was committed on the connection by the server *)
Example capture_faithful_hijack_refuted :
  let '(c, u) := run_handler ex_miss 8 true [AHijack] in
  c_wrote c = true /\ u_committed u = false /\ u_hijacked u = true /\ cacheable c = false.
Proof. vm_compute. repeat split; reflexivity. Qed.

(* a 204 response: the client gets no body although the handler wrote one; the stored body is
   the captured one, and replay only agrees at the client level (client_of drops it) *)
Example ex_no_body_status :
  let '(c, u) := run_handler [] 8 true [AWriteHeader 204; AWrite 3 1] in
  cacheable c = true /\ c_buf c = [(3, 1)] /\ u_body u = [] /\ body_allowed 204 = false.
Proof. vm_compute. repeat split; reflexivity. Qed.
