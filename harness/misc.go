//go:build verif

package main

import (
	"errors"
	"fmt"
	"math"
	"math/rand"
	"runtime"
	"sort"
	"strings"
	"sync"
	"sync/atomic"
	"time"
	"unsafe"

	"github.com/unkn0wn-root/kioshun"
)

// Streams "reg" (C17), "cb" (C20), "keys" (C18).

const sidReg = 17

type anyCache interface {
	Close() error
	Stats() kioshun.Stats
}

func regErr(err error) int64 {
	switch {
	case err == nil:
		return 0
	case errors.Is(err, kioshun.ErrCacheExists):
		return 1
	case errors.Is(err, kioshun.ErrCacheNotRegistered):
		return 2
	case errors.Is(err, kioshun.ErrTypeMismatch):
		return 3
	case errors.Is(err, kioshun.ErrInvalidConfig):
		return 4
	}
	return 9
}

func regGet(m *kioshun.Manager, name string, ty int) (any, error) {
	switch ty {
	case 1:
		c, e := kioshun.GetCache[string, int](m, name)
		if e != nil {
			return nil, e
		}
		return c, nil
	case 2:
		c, e := kioshun.GetCache[int, int](m, name)
		if e != nil {
			return nil, e
		}
		return c, nil
	default:
		c, e := kioshun.GetCache[string, string](m, name)
		if e != nil {
			return nil, e
		}
		return c, nil
	}
}

func regGetCfg(m *kioshun.Manager, name string, ty int, cfg kioshun.Config) (any, error) {
	switch ty {
	case 1:
		c, e := kioshun.GetCacheWithConfig[string, int](m, name, cfg)
		if e != nil {
			return nil, e
		}
		return c, nil
	case 2:
		c, e := kioshun.GetCacheWithConfig[int, int](m, name, cfg)
		if e != nil {
			return nil, e
		}
		return c, nil
	default:
		c, e := kioshun.GetCacheWithConfig[string, string](m, name, cfg)
		if e != nil {
			return nil, e
		}
		return c, nil
	}
}

func regRegister(m *kioshun.Manager, name string, ty int, cfg kioshun.Config) error {
	switch ty {
	case 0:
		return m.Register(name, cfg)
	case 1:
		return kioshun.RegisterCache[string, int](m, name, cfg)
	case 2:
		return kioshun.RegisterCache[int, int](m, name, cfg)
	default:
		return kioshun.RegisterCache[string, string](m, name, cfg)
	}
}

// the same three call families through the package-level (global manager) wrappers
func regGlobalRegister(name string, ty int, cfg kioshun.Config) error {
	switch ty {
	case 0:
		return kioshun.RegisterGlobalCache(name, cfg)
	case 1:
		return kioshun.RegisterGlobalTypedCache[string, int](name, cfg)
	case 2:
		return kioshun.RegisterGlobalTypedCache[int, int](name, cfg)
	default:
		return kioshun.RegisterGlobalTypedCache[string, string](name, cfg)
	}
}

func regGlobalGet(name string, ty int) (any, error) {
	switch ty {
	case 1:
		c, e := kioshun.GetGlobalCache[string, int](name)
		if e != nil {
			return nil, e
		}
		return c, nil
	case 2:
		c, e := kioshun.GetGlobalCache[int, int](name)
		if e != nil {
			return nil, e
		}
		return c, nil
	default:
		c, e := kioshun.GetGlobalCache[string, string](name)
		if e != nil {
			return nil, e
		}
		return c, nil
	}
}

func regGlobalGetCfg(name string, ty int, cfg kioshun.Config) (any, error) {
	switch ty {
	case 1:
		c, e := kioshun.GetGlobalCacheWithConfig[string, int](name, cfg)
		if e != nil {
			return nil, e
		}
		return c, nil
	case 2:
		c, e := kioshun.GetGlobalCacheWithConfig[int, int](name, cfg)
		if e != nil {
			return nil, e
		}
		return c, nil
	default:
		c, e := kioshun.GetGlobalCacheWithConfig[string, string](name, cfg)
		if e != nil {
			return nil, e
		}
		return c, nil
	}
}

func isClosedCache(c any) bool {
	switch x := c.(type) {
	case *kioshun.Cache[string, int]:
		return x.VerifClosed()
	case *kioshun.Cache[int, int]:
		return x.VerifClosed()
	case *kioshun.Cache[string, string]:
		return x.VerifClosed()
	}
	return false
}

func streamReg(o opts) {
	r := newRand(o.seed, "reg")
	m := newMeta("reg", o.seed)
	m.Rule = "sequential call sequences on a real Manager (Register/RegisterCache/GetCache/GetCacheWithConfig/Remove/CloseAll over 3 names x 3 type-parameter pairs, valid and invalid configs) compared with the sequential registry specification; then concurrent rounds: 2-16 goroutines per name mixing the same calls, checking instance identity, liveness, type-mismatch errors and goroutine deltas; non-trivial = concurrent round in which a creation race was lost by at least one caller; distinct by (callers, types involved)"
	w := newTraceWriter(o.out, "reg")
	good := kioshun.Config{MaxSize: 16, ShardCount: 2, EvictionPolicy: kioshun.LRU}
	bad := kioshun.Config{MaxSize: -1}
	names := []string{"a", "b", "c"}
	for t := 0; t < o.n; t++ {
		mg := kioshun.NewManager()
		w.T(sidReg, &toks{})
		var rec [][2]*toks // the same calls are replayed on RegistryLts (sid 18) after the trace
		emit := func(op, res *toks) {
			w.O(op, res)
			rec = append(rec, [2]*toks{op, res})
		}
		ids := map[any]int64{}
		next := int64(1)
		idOf := func(c any) int64 {
			if id, ok := ids[c]; ok {
				return id
			}
			ids[c] = next
			next++
			return ids[c]
		}
		var created []any
		for i := 0; i < 40+r.Intn(60); i++ {
			ni := r.Intn(len(names))
			name := names[ni]
			ty := 1 + r.Intn(3)
			valid := r.Intn(8) != 0
			cfg := good
			if !valid {
				cfg = bad
			}
			switch c := r.Intn(100); {
			case c < 20:
				rt := r.Intn(4)
				err := regRegister(mg, name, rt, cfg)
				emit(ints(1, int64(ni), int64(rt)).B(valid), ints(regErr(err), 0))
				m.count("register")
			case c < 50:
				inst, err := regGet(mg, name, ty)
				id := int64(0)
				if err == nil {
					id = idOf(inst)
					created = append(created, inst)
					if isClosedCache(inst) {
						m.violate("C17", fmt.Sprintf("GetCache(%s) returned a closed instance", name), fmt.Sprint(t))
					}
				}
				emit(ints(2, int64(ni), int64(ty)), ints(regErr(err), id))
				m.count("getcache")
			case c < 80:
				inst, err := regGetCfg(mg, name, ty, cfg)
				id := int64(0)
				if err == nil {
					id = idOf(inst)
					created = append(created, inst)
					if isClosedCache(inst) {
						m.violate("C17", fmt.Sprintf("GetCacheWithConfig(%s) returned a closed instance", name), fmt.Sprint(t))
					}
				}
				emit(ints(3, int64(ni), int64(ty)).B(valid), ints(regErr(err), id))
				m.count("getcachewithconfig")
			case c < 92:
				before := map[any]bool{}
				for _, x := range created {
					before[x] = isClosedCache(x)
				}
				mg.Remove(name)
				emit(ints(4, int64(ni)), ints(0, 0))
				if _, err := regGet(mg, name, ty); !errors.Is(err, kioshun.ErrCacheNotRegistered) {
					m.violate("C17", fmt.Sprintf("after Remove(%s) GetCache returned %v, want ErrCacheNotRegistered", name, err), fmt.Sprint(t))
				} else {
					emit(ints(2, int64(ni), int64(ty)), ints(2, 0))
				}
				m.count("remove")
			default:
				mg.CloseAll()
				emit(ints(5), ints(0, 0))
				for _, x := range created {
					if !isClosedCache(x) {
						m.violate("C17", "CloseAll left a live instance", fmt.Sprint(t))
					}
				}
				created = nil
				m.count("closeall")
			}
		}
		w.T(18, &toks{})
		for _, x := range rec {
			w.O(x[0], x[1])
		}
		mg.CloseAll()
		if t < 2 {
			m.sample(fmt.Sprintf("sequential registry trace %d", t))
		}
	}
	// the package-level wrappers over the global manager: the same sequential specification (no Remove there; fresh
	// names per trace because global registrations cannot be dropped)
	for t := 0; t < o.n/3+2; t++ {
		w.T(sidReg, &toks{})
		gnames := []string{fmt.Sprintf("g%d-%d-a", o.seed, t), fmt.Sprintf("g%d-%d-b", o.seed, t), fmt.Sprintf("g%d-%d-c", o.seed, t)}
		ids := map[any]int64{}
		next := int64(1)
		idOf := func(c any) int64 {
			if id, ok := ids[c]; ok {
				return id
			}
			ids[c] = next
			next++
			return ids[c]
		}
		for i := 0; i < 30+r.Intn(40); i++ {
			ni := r.Intn(len(gnames))
			name := gnames[ni]
			ty := 1 + r.Intn(3)
			valid := r.Intn(8) != 0
			cfg := good
			if !valid {
				cfg = bad
			}
			switch c := r.Intn(100); {
			case c < 25:
				rt := r.Intn(4)
				err := regGlobalRegister(name, rt, cfg)
				w.O(ints(1, int64(ni), int64(rt)).B(valid), ints(regErr(err), 0))
				m.count("global_register")
			case c < 55:
				inst, err := regGlobalGet(name, ty)
				id := int64(0)
				if err == nil {
					id = idOf(inst)
				}
				w.O(ints(2, int64(ni), int64(ty)), ints(regErr(err), id))
				m.count("global_getcache")
			case c < 90:
				inst, err := regGlobalGetCfg(name, ty, cfg)
				id := int64(0)
				if err == nil {
					id = idOf(inst)
				}
				w.O(ints(3, int64(ni), int64(ty)).B(valid), ints(regErr(err), id))
				m.count("global_getcachewithconfig")
			default:
				kioshun.CloseAllGlobalCaches()
				w.O(ints(5), ints(0, 0))
				m.count("global_closeall")
			}
		}
		if n := len(kioshun.GetGlobalCacheStats()); n > len(gnames) {
			m.violate("C17", fmt.Sprintf("global manager reports %d live caches, at most %d names are in use", n, len(gnames)), fmt.Sprint(t))
		}
		kioshun.CloseAllGlobalCaches()
	}
	// a removal listener of a managed cache that calls back into the Manager while Remove / CloseAll close that cache
	for rep := 0; rep < 4; rep++ {
		mg := kioshun.NewManager()
		ctx := fmt.Sprintf("registry listener re-entry %d", rep)
		var calls atomic.Int64
		lst := kioshun.WithOnRemove(func(k string, v int, r kioshun.RemovalReason) {
			calls.Add(1)
			kioshun.GetCacheWithConfig[string, int](mg, fmt.Sprintf("other-%d", calls.Load()%3), good)
			mg.Register("late", good)
			kioshun.GetCache[string, int](mg, "nobody")
		})
		if err := kioshun.RegisterCache[string, int](mg, "main", kioshun.Config{MaxSize: 4, ShardCount: 1, EvictionPolicy: kioshun.LRU}, lst); err != nil {
			continue
		}
		c, err := kioshun.GetCache[string, int](mg, "main")
		if err != nil {
			continue
		}
		for i := 0; i < 64; i++ {
			c.Set(fmt.Sprint(i), i, kioshun.NoExpiration) // evictions: notifications staged / in flight
		}
		done := make(chan struct{})
		go func() {
			if rep%2 == 0 {
				mg.Remove("main")
			} else {
				mg.CloseAll()
			}
			close(done)
		}()
		select {
		case <-done:
		case <-time.After(5 * time.Second):
			for _, p := range []string{"C07", "C17"} {
				m.violate(p, fmt.Sprintf("%s: a managed cache's removal listener calls GetCacheWithConfig / Register / GetCache on the same Manager; %s did not return within 5 s (a Manager lock is held across the cache's Close, which waits for the listener)", ctx, map[bool]string{true: "Remove", false: "CloseAll"}[rep%2 == 0]), ctx)
			}
		}
		go mg.CloseAll()
		m.count("registry_listener_reentry")
	}
	// concurrent rounds
	watch("registry warm-up")
	unwatch()
	time.Sleep(5 * time.Millisecond)
	for round := 0; round < o.n; round++ {
		base := runtime.NumGoroutine()
		mg := kioshun.NewManager()
		name := "n"
		regTy := r.Intn(4) // 0 = none / untyped registration patterns below
		switch r.Intn(3) {
		case 0:
			regRegister(mg, name, regTy, good)
		case 1:
			regRegister(mg, name, 0, good)
			regTy = 0
		default:
			regTy = -1 // unregistered: only GetCacheWithConfig can create
		}
		callers := 2 + r.Intn(15)
		var wg sync.WaitGroup
		var mu sync.Mutex
		got := map[any]int{}
		types := map[any]int{}
		errs := map[int64]int{}
		start := make(chan struct{})
		tys := make([]int, callers)
		for g := 0; g < callers; g++ {
			tys[g] = 1 + r.Intn(2)
			if r.Intn(4) == 0 {
				tys[g] = 3
			}
		}
		watch(fmt.Sprintf("registry round %d", round))
		for g := 0; g < callers; g++ {
			wg.Add(1)
			g := g
			useCfg := r.Intn(2) == 0
			go func() {
				defer wg.Done()
				<-start
				var inst any
				var err error
				if useCfg {
					inst, err = regGetCfg(mg, name, tys[g], good)
				} else {
					inst, err = regGet(mg, name, tys[g])
				}
				mu.Lock()
				if err == nil {
					got[inst]++
					types[inst] = tys[g]
				} else {
					errs[regErr(err)]++
				}
				mu.Unlock()
			}()
		}
		close(start)
		wg.Wait()
		unwatch()
		if len(got) > 1 {
			m.violate("C17", fmt.Sprintf("registry round %d: %d callers on one name received %d different instances", round, callers, len(got)), fmt.Sprint(round))
		}
		for inst := range got {
			if isClosedCache(inst) {
				m.violate("C17", fmt.Sprintf("registry round %d: successful callers hold a closed instance", round), fmt.Sprint(round))
			}
		}
		if errs[9] > 0 {
			m.violate("C17", "unexpected error class from the registry", fmt.Sprint(round))
		}
		if regTy == -1 && errs[2] == 0 && len(got) == 0 {
			m.count("nobody_created")
		}
		mg.CloseAll()
		deadline := time.Now().Add(2 * time.Second)
		for runtime.NumGoroutine() > base && time.Now().Before(deadline) {
			time.Sleep(time.Millisecond)
		}
		if n := runtime.NumGoroutine(); n > base {
			m.violate("C17", fmt.Sprintf("registry round %d: %d goroutines left after CloseAll (an instance that lost a creation race was not closed?) callers=%d types=%v", round, n-base, callers, tys), fmt.Sprint(round))
		}
		if len(got) == 1 && callers > 2 {
			m.nontrivial(fmt.Sprintf("c%d/e%d", callers, len(errs)))
		}
		m.count("concurrent_rounds")
	}
	// concurrent registrations of one fresh name: Register never replaces, so exactly one caller may succeed
	{
		rounds := 150 * o.n
		if rounds > 30000 {
			rounds = 30000
		}
		watch("registry register race")
		bad := 0
		for i := 0; i < rounds && bad < 3; i++ {
			mg := kioshun.NewManager()
			var okN atomic.Int64
			var ready, wg sync.WaitGroup
			start := make(chan struct{})
			for g := 0; g < 6; g++ {
				wg.Add(1)
				ready.Add(1)
				g := g
				go func() {
					defer wg.Done()
					cfg := good
					cfg.MaxSize = int64(100 + g)
					ready.Done()
					<-start
					var err error
					if g%2 == 0 {
						err = mg.Register("r", cfg)
					} else {
						err = kioshun.RegisterCache[string, int](mg, "r", cfg)
					}
					if err == nil {
						okN.Add(1)
					}
				}()
			}
			ready.Wait()
			close(start)
			wg.Wait()
			if n := okN.Load(); n != 1 {
				bad++
				m.violate("C17", fmt.Sprintf("register race %d: 6 concurrent Register/RegisterCache calls for one fresh name, %d reported success (a registration was silently replaced)", i, n), fmt.Sprint(i))
			}
		}
		unwatch()
		m.countN("register_race_rounds", int64(rounds))
	}
	// CloseAll / Remove racing re-creation: every instance ever handed out must end up closed or still registered
	for round := 0; round < o.n; round++ {
		mg := kioshun.NewManager()
		mg.Register("x", good)
		var mu sync.Mutex
		handed := map[*kioshun.Cache[int, int]]bool{}
		var wg sync.WaitGroup
		stop := make(chan struct{})
		watch(fmt.Sprintf("closeall race round %d", round))
		for g := 0; g < 3; g++ {
			wg.Add(1)
			go func() {
				defer wg.Done()
				for {
					select {
					case <-stop:
						return
					default:
					}
					if c, err := kioshun.GetCache[int, int](mg, "x"); err == nil {
						mu.Lock()
						handed[c] = true
						mu.Unlock()
					}
				}
			}()
		}
		for g := 0; g < 2; g++ {
			wg.Add(1)
			go func() {
				defer wg.Done()
				for i := 0; i < 300; i++ {
					mg.CloseAll()
				}
			}()
		}
		time.Sleep(3 * time.Millisecond)
		close(stop)
		wg.Wait()
		mg.CloseAll()
		unwatch()
		leaked := 0
		for c := range handed {
			if !c.VerifClosed() {
				leaked++
			}
		}
		if leaked > 0 {
			m.violate("C17", fmt.Sprintf("closeall race round %d: %d of %d instances handed out by GetCache are neither closed nor reachable through the manager after a final CloseAll (goroutines leaked)", round, leaked, len(handed)), fmt.Sprint(round))
		}
		m.count("closeall_race_rounds")
	}
	// deterministic replay of the registry LTS schedule `sched_leak` through the yield hook in CloseAll
	{
		mg := kioshun.NewManager()
		c0, _ := kioshun.GetCacheWithConfig[int, int](mg, "k", good)
		watch("closeall leak probe")
		kioshun.VerifSchedReset(true, 300*time.Millisecond)
		kioshun.VerifSchedSpawn(1, func() { mg.CloseAll() })
		if p := stepUntil(1, 401); p == 401 { // closed instance 0, about to forget the key
			mg.CloseAll()                                                  // a second CloseAll forgets the key
			c1, err := kioshun.GetCacheWithConfig[int, int](mg, "k", good) // a caller re-creates the name
			stepUntil(1, -100)                                             // the first CloseAll now deletes whatever is under the key
			kioshun.VerifSchedReset(false, 0)
			mg.CloseAll()
			if err == nil && c1 != c0 && !c1.VerifClosed() {
				m.violate("C17", "two CloseAll calls and a re-creating GetCacheWithConfig: the new live instance was dropped from the registry without being closed (its goroutines leak; later callers get a second instance)", "sched_leak")
				c1.Close()
			}
		} else {
			kioshun.VerifSchedReset(false, 0)
			m.count("closeall_probe_setup_failed")
		}
		unwatch()
	}
	w.Close()
	m.Traces, m.Ops = w.traces, w.ops
	m.write(o.out)
}

// ------------------------------------------------------------------ callbacks (C20)
const sidCb = 20

// cbCloses (C07, C08): an expiry callback that calls Close, and a Close issued while a callback is still running: both
// must return (callbacks run on their own goroutine with no lock held; Close does not wait for them). Real clock.
// cbPendingQueue (C20, C07): the timer fires while an asynchronous write is still queued on the shard (the drain token
// was busy when it was issued and is free again, the worker has gone back to sleep); the callback then writes
// synchronously to that shard. Callbacks run with no cache lock held: it must return.
func cbPendingQueue(m *meta, r *rand.Rand, round int) {
	kioshun.VerifSetClock(false, 0)
	pol := pick(r, []kioshun.EvictionPolicy{kioshun.LRU, kioshun.SieveTinyLFU, kioshun.FIFO, kioshun.LFU})
	ctx := fmt.Sprintf("callback scenario pending-queue round %d policy %v", round, pol)
	watch(ctx)
	defer unwatch()
	// the write worker is adopted by the scheduler and left parked at its select, so the queued write stays queued
	kioshun.VerifSchedReset(true, 300*time.Millisecond)
	kioshun.VerifSchedAdoptWorkers(true)
	c, err := kioshun.New[int, int](kioshun.Config{MaxSize: 64, ShardCount: 1, EvictionPolicy: pol, WriteBufferSize: 64})
	must(err)
	for i := 0; i < 5000 && !kioshun.VerifSchedKnown(1000); i++ {
		time.Sleep(100 * time.Microsecond)
	}
	kioshun.VerifSchedAdoptWorkers(false)
	defer kioshun.VerifSchedReset(false, 0)
	defer kioshun.VerifSchedRelease()
	if !kioshun.VerifSchedKnown(1000) || stepUntil(1000, 301) != 301 {
		m.count("cb_pending_setup_failed")
		return
	}
	done := make(chan struct{})
	c.SetWithCallback(1, 10, 30*time.Millisecond, func(k, v int) {
		c.Set(2, 20, kioshun.NoExpiration)
		c.Delete(3)
		c.Sync()
		close(done)
	})
	c.VerifHoldDrain(0, true)
	c.SetAsync(5, 50, kioshun.NoExpiration) // queued: the worker's wake-up finds the token busy
	time.Sleep(2 * time.Millisecond)
	c.VerifHoldDrain(0, false)
	select {
	case <-done:
	case <-time.After(3 * time.Second):
		for _, p := range []string{"C20", "C07"} {
			m.violate(p, ctx+": SetWithCallback(1,10,30ms); a SetAsync left queued on the shard; the callback (Set, Delete, Sync on that shard) did not return within 3 s: callbacks run with no cache lock held so they may use the cache", ctx)
		}
	}
	go c.Close()
	m.count("cb_pending_queue")
}

// cbContended (C20, real clock): the two moments at which a SetWithCallback meets contention.
// (a) The drain token is busy when the call is made and stays busy for longer than the TTL: the write commits - and its
//     deadline is stamped - only when the token is released, so the callback may not run before release + TTL, and
//     when it runs the entry it was registered for is past its deadline.
// (b) The shard's write lock is held while the expiry timer elapses: however long the timer goroutine waits for the
//     lock, the callback of one write runs once.
func cbContended(m *meta, r *rand.Rand, round int) {
	kioshun.VerifSetClock(false, 0)
	pol := pick(r, []kioshun.EvictionPolicy{kioshun.LRU, kioshun.SieveTinyLFU, kioshun.FIFO, kioshun.LFU})
	ctx := fmt.Sprintf("callback scenario contended round %d policy %v", round, pol)
	watch(ctx)
	defer unwatch()
	{
		c, err := kioshun.New[int, int](kioshun.Config{MaxSize: 64, ShardCount: 1, EvictionPolicy: pol})
		must(err)
		ttl := 60 * time.Millisecond
		var firedAt atomic.Int64
		var early atomic.Int64
		c.VerifHoldDrain(0, true)
		returned := make(chan error, 1)
		go func() {
			returned <- c.SetWithCallback(1, 10, ttl, func(k, v int) {
				firedAt.Store(time.Now().UnixNano())
				if _, exp, _, ok := c.VerifPeek(1); ok && exp > c.VerifNow() {
					early.Store(exp - c.VerifNow())
				}
			})
		}()
		time.Sleep(90 * time.Millisecond)
		released := time.Now()
		c.VerifHoldDrain(0, false)
		select {
		case <-returned:
		case <-time.After(3 * time.Second):
			m.violate("C07", ctx+": SetWithCallback did not return within 3 s after the drain token was released", ctx)
		}
		for t0 := time.Now(); firedAt.Load() == 0 && time.Since(t0) < 3*time.Second; {
			time.Sleep(time.Millisecond)
		}
		if f := firedAt.Load(); f == 0 {
			m.violate("C20", fmt.Sprintf("%s: SetWithCallback(1,10,%v) committed when the drain token was released; 3 s later, untouched, its callback has not run", ctx, ttl), ctx)
		} else if d := time.Duration(f - released.UnixNano()); d < ttl-time.Millisecond || early.Load() > 0 {
			m.violate("C20", fmt.Sprintf("%s: SetWithCallback(1,10,%v) was called while the drain token was busy and committed when it was released 90 ms later; its callback ran %v after the release, when the entry still had %v to live: a callback never fires before its write's deadline", ctx, ttl, d, time.Duration(early.Load())), ctx)
		}
		c.Close()
	}
	{
		c, err := kioshun.New[int, int](kioshun.Config{MaxSize: 64, ShardCount: 1, EvictionPolicy: pol})
		must(err)
		var runs atomic.Int64
		c.SetWithCallback(1, 10, 40*time.Millisecond, func(k, v int) { runs.Add(1) })
		time.Sleep(20 * time.Millisecond)
		c.VerifHoldShard(0, true)
		time.Sleep(60 * time.Millisecond)
		c.VerifHoldShard(0, false)
		for t0 := time.Now(); runs.Load() == 0 && time.Since(t0) < 3*time.Second; {
			time.Sleep(time.Millisecond)
		}
		time.Sleep(120 * time.Millisecond)
		if n := runs.Load(); n != 1 {
			m.violate("C20", fmt.Sprintf("%s: SetWithCallback(1,10,40ms), never touched again; the shard's write lock was held from 20 ms to 80 ms (the timer elapsed inside that window); the callback ran %d times: exactly once per write", ctx, n), ctx)
		}
		c.Close()
	}
	m.count("cb_contended")
}

func cbCloses(m *meta, r *rand.Rand, round int) {
	kioshun.VerifSetClock(false, 0)
	pol := pick(r, []kioshun.EvictionPolicy{kioshun.LRU, kioshun.SieveTinyLFU, kioshun.FIFO})
	ctx := fmt.Sprintf("callback scenario close-from-callback round %d policy %v", round, pol)
	watch(ctx)
	defer unwatch()
	// (a) Close called from the callback
	c, err := kioshun.New[int, int](kioshun.Config{MaxSize: 8, ShardCount: 2, EvictionPolicy: pol})
	must(err)
	returned := make(chan struct{})
	c.SetWithCallback(1, 10, 2*time.Millisecond, func(k, v int) { c.Close(); close(returned) })
	select {
	case <-returned:
	case <-time.After(3 * time.Second):
		for _, p := range []string{"C07", "C08", "C20"} {
			m.violate(p, ctx+": Close called from an expiry callback did not return within 3 s (callbacks run with no cache lock held and may use the cache, Close included)", ctx)
		}
	}
	// (b) Close while a callback is blocked
	c2, err := kioshun.New[int, int](kioshun.Config{MaxSize: 8, ShardCount: 2, EvictionPolicy: pol})
	must(err)
	gate, entered := make(chan struct{}), make(chan struct{})
	c2.SetWithCallback(1, 10, 2*time.Millisecond, func(k, v int) { close(entered); <-gate })
	select {
	case <-entered:
		done := make(chan struct{})
		go func() { c2.Close(); close(done) }()
		select {
		case <-done:
		case <-time.After(3 * time.Second):
			for _, p := range []string{"C07", "C08"} {
				m.violate(p, ctx+": Close did not return within 3 s while an expiry callback was still running", ctx)
			}
		}
	case <-time.After(2 * time.Second):
		m.count("cb_closes_callback_never_ran")
	}
	close(gate)
	m.count("scenario_close_from_callback")
}

// cbRejected (C20): a SetWithCallback whose write TinyLFU declines stores nothing and must schedule nothing, even with a
// TTL so short that the deadline has passed before the call returns (real clock; monitor only).
func cbRejected(m *meta, r *rand.Rand, round int) {
	kioshun.VerifSetClock(false, 0)
	ctx := fmt.Sprintf("callback scenario rejected-candidate round %d", round)
	c, err := kioshun.New[int, int](kioshun.Config{MaxSize: 32, ShardCount: 1, EvictionPolicy: kioshun.SieveTinyLFU, StatsEnabled: true})
	must(err)
	watch(ctx)
	defer unwatch()
	for k := 0; k < 32; k++ {
		c.Set(k, k, kioshun.NoExpiration)
	}
	for rep := 0; rep < 8; rep++ {
		for k := 0; k < 32; k++ {
			c.Get(k)
		}
	}
	c.Set(0, 0, kioshun.NoExpiration) // a write replays the sampled reads into the sketch
	var mu sync.Mutex
	fired := map[int]int{}
	rejected := map[int]bool{}
	for key := 1000; key < 1400; key++ {
		before := c.PolicyStats()
		if e := c.SetWithCallback(key, key, time.Nanosecond, func(k, _ int) { mu.Lock(); fired[k]++; mu.Unlock() }); e != nil {
			continue
		}
		after := c.PolicyStats()
		if after.Rejects == before.Rejects+1 && after.Admits == before.Admits {
			rejected[key] = true
		}
	}
	time.Sleep(60 * time.Millisecond)
	mu.Lock()
	bad := 0
	for k := range fired {
		if rejected[k] {
			bad++
		}
	}
	mu.Unlock()
	if bad > 0 {
		m.violate("C20", fmt.Sprintf("%s: %d SetWithCallback calls were declined by admission (nothing stored), yet their callbacks ran", ctx, bad), ctx)
	}
	if len(rejected) > 0 {
		m.nontrivial(fmt.Sprintf("rejected/%d", min(len(rejected)/50, 8)))
	} else {
		m.count("cb_rejected_none")
	}
	c.Close()
	m.count("scenario_rejected")
}

func streamCb(o opts) {
	r := newRand(o.seed, "cb")
	m := newMeta("cb", o.seed)
	m.Rule = "SetWithCallback under a virtual cache clock (real timers only trigger the re-validation): 14 directed scenarios (untouched, not yet due, Delete, Clear, re-Set with later / earlier / no expiry, Delete+re-Set shorter, Delete+re-Set with the same TTL 1 us later, rewrite 2 us later, Close, failing write, non-expiring write, two keys) with callbacks that re-enter the cache, then random call sequences over two keys (SetWithCallback / Set / Delete / Clear / clock advances / Close); every call is replayed on CallbackLts (each call thread run to completion, timers taking the closeCh case at Close and the timer case at the final clock) and the set of callbacks that ran is compared; non-trivial = scenario whose callback is expected to fire and does; distinct by scenario kind and policy"
	w := newTraceWriter(o.out, "cb")
	fired := func(ch chan [2]int, wait time.Duration) [][2]int {
		var out [][2]int
		deadline := time.After(wait)
		for {
			select {
			case x := <-ch:
				out = append(out, x)
			case <-deadline:
				return out
			}
		}
	}
	for round := 0; round < o.n; round++ {
		pol := pick(r, []kioshun.EvictionPolicy{kioshun.LRU, kioshun.LFU, kioshun.FIFO, kioshun.SieveTinyLFU})
		kind := round % 20
		if kind == 19 {
			cbRejected(m, r, round)
			continue
		}
		if kind == 18 {
			cbCloses(m, r, round)
			continue
		}
		if kind == 17 {
			cbPendingQueue(m, r, round)
			continue
		}
		if kind == 16 {
			cbContended(m, r, round)
			continue
		}
		if kind > 14 {
			kind = 14 // random sequences
		}
		ctx := fmt.Sprintf("callback scenario %d policy %d", kind, pol)
		kioshun.VerifSetClock(true, 1000)
		// a configured janitor (it never ticks within a scenario) must not change which callbacks run
		janitor := time.Duration(0)
		if (round/20)%2 == 1 {
			janitor = time.Hour
		}
		c, err := kioshun.New[int, int](kioshun.Config{MaxSize: 8, ShardCount: 1, EvictionPolicy: pol, CleanupInterval: janitor})
		must(err)
		w.T(sidCb, ints(0, 1000))
		ch := make(chan [2]int, 64)
		var reent atomic.Int64
		reentrant := kind < 14
		cb := func(k, v int) {
			if reentrant {
				// re-enter the cache on the callback's own key: must not deadlock
				c.Get(k)
				c.Set(k, -v, kioshun.NoExpiration)
				c.Delete(k)
				reent.Add(1)
			}
			ch <- [2]int{k, v}
		}
		ttlOf := map[int]time.Duration{}
		swc := func(k, v int, ttl time.Duration) error {
			ttlOf[v] = ttl
			e := c.SetWithCallback(k, v, ttl, cb)
			w.O(ints(1, int64(k), int64(v), int64(ttl)), &toks{})
			return e
		}
		set := func(k, v int, ttl time.Duration) {
			c.Set(k, v, ttl)
			w.O(ints(3, int64(k), int64(v), int64(ttl)), &toks{})
		}
		del := func(k int) { c.Delete(k); w.O(ints(2, int64(k)), &toks{}) }
		clr := func() { c.Clear(); w.O(ints(4), &toks{}) }
		cls := func() { c.Close(); w.O(ints(5), &toks{}) }
		adv := func(d int64) { kioshun.VerifAdvance(d); w.O(ints(6, d), &toks{}) }
		const ttl = 20 * time.Millisecond // real delay of the timer; virtual deadline = 1000 + ttl
		expect, checkExpect := false, true
		wait := 3*ttl + 20*time.Millisecond
		watch(ctx)
		switch kind {
		case 0: // untouched, clock moved past the deadline: fires
			swc(1, 10, ttl)
			adv(int64(ttl) + 1)
			expect = true
		case 1: // untouched but the clock never passes the deadline: must not fire (not early)
			swc(1, 10, ttl)
			adv(int64(ttl) - 1)
		case 2: // deleted
			swc(1, 10, ttl)
			del(1)
			adv(int64(ttl) + 1)
		case 3: // cleared
			swc(1, 10, ttl)
			clr()
			adv(int64(ttl) + 1)
		case 4: // rewritten with a later expiry
			swc(1, 10, ttl)
			set(1, 11, 10*ttl)
			adv(int64(ttl) + 1)
		case 5: // rewritten with no expiry
			swc(1, 10, ttl)
			set(1, 11, kioshun.NoExpiration)
			adv(int64(ttl) + 1)
		case 6: // deleted, then re-set with a shorter TTL (finding F11, fixed)
			swc(1, 10, ttl)
			del(1)
			set(1, 11, ttl/4)
			adv(int64(ttl) + 1)
		case 7: // closed before the timer elapses
			swc(1, 10, ttl)
			cls()
			adv(int64(ttl) + 1)
		case 8: // entry that never expires schedules nothing
			swc(1, 10, kioshun.NoExpiration)
			adv(int64(time.Hour))
		case 9: // two registrations on two keys: each fires once with its own key and value
			swc(1, 10, ttl)
			swc(2, 20, ttl)
			adv(int64(ttl) + 1)
			expect = true
		case 10: // failing write (closed cache) schedules nothing
			cls()
			if e := swc(1, 10, ttl); e == nil {
				m.violate("C20", ctx+": SetWithCallback succeeded on a closed cache", ctx)
			}
			adv(int64(ttl) + 1)
		case 11: // deleted and re-set with the SAME ttl one microsecond later: another deadline, must not fire
			swc(1, 10, ttl)
			adv(1000)
			del(1)
			set(1, 11, ttl)
			adv(int64(ttl) + 2000)
		case 12: // rewritten in place with an expiry two microseconds later
			swc(1, 10, ttl)
			set(1, 11, ttl+2*time.Microsecond)
			adv(int64(ttl) + 5000)
		case 13: // the stored deadline is exactly now+ttl (no rounding): GetWithTTL reports ttl, and the callback is not early by a tick
			swc(1, 10, ttl)
			if _, rem, ok := c.GetWithTTL(1); !ok || rem != ttl {
				m.violate("C20", fmt.Sprintf("%s: SetWithCallback(ttl=%v) at a frozen clock stores remaining %v", ctx, ttl, rem), ctx)
			}
			adv(int64(ttl) - 1)
		case 14: // random call sequence over two keys; the model decides what may fire
			checkExpect = false
			val := 10
			ttls := []time.Duration{ttl, 2 * ttl, ttl + 3*time.Microsecond, kioshun.NoExpiration, 0, -2 * time.Second}
			closedNow := false
			for i, n := 0, 3+r.Intn(8); i < n; i++ {
				k := 1 + r.Intn(2)
				val++
				switch x := r.Intn(100); {
				case x < 35:
					swc(k, val, pick(r, ttls))
				case x < 55:
					set(k, val, pick(r, ttls))
				case x < 70:
					del(k)
				case x < 76:
					clr()
				case x < 96:
					adv(pick(r, []int64{1, 1000, int64(ttl) / 2, int64(ttl) - 1, int64(ttl), int64(ttl) + 1, 2*int64(ttl) + 1}))
				default:
					if !closedNow {
						cls()
						closedNow = true
					}
				}
			}
			adv(pick(r, []int64{0, 1, int64(ttl) + 1, 3 * int64(ttl)}))
			wait = 5*ttl + 20*time.Millisecond
		}
		got := fired(ch, wait)
		seen := map[[2]int]int{}
		for _, x := range got {
			if t, ok := ttlOf[x[1]]; ok && t <= 0 {
				m.violate("C20", fmt.Sprintf("%s: the callback of SetWithCallback(%d,%d,ttl=%d) ran although that entry never expires (DefaultTTL is 0)", ctx, x[0], x[1], int64(t)), ctx)
			}
			seen[x]++
			if seen[x] > 1 {
				m.violate("C20", fmt.Sprintf("%s: callback for (%d,%d) ran %d times", ctx, x[0], x[1], seen[x]), ctx)
			}
			if kind < 14 && ((x[0] == 1 && x[1] != 10) || (x[0] == 2 && x[1] != 20)) {
				m.violate("C20", fmt.Sprintf("%s: callback received (%d,%d), not the key and value of its own call", ctx, x[0], x[1]), ctx)
			}
		}
		sort.Slice(got, func(a, b int) bool {
			if got[a][0] != got[b][0] {
				return got[a][0] < got[b][0]
			}
			return got[a][1] < got[b][1]
		})
		obs := &toks{}
		for _, x := range got {
			obs.I(int64(x[0]), int64(x[1]))
		}
		w.O(ints(7), obs)
		if checkExpect && !expect && len(got) > 0 {
			m.violate("C20", fmt.Sprintf("%s: callback fired %v although it must not (deleted / cleared / refreshed / not yet due / closed / nothing to schedule)", ctx, got), ctx)
		}
		if expect {
			want := 1
			if kind == 9 {
				want = 2
			}
			if len(got) == want {
				m.nontrivial(fmt.Sprintf("k%d/p%d", kind, pol))
			} else {
				m.count("expected_callback_missing")
			}
		}
		if kind == 14 && len(got) > 0 {
			m.nontrivial(fmt.Sprintf("rand/p%d/%d", pol, len(got)))
		}
		c.Close()
		unwatch()
		m.count(fmt.Sprintf("scenario_%d", kind))
	}
	kioshun.VerifSetClock(false, 0)
	w.Close()
	m.Traces, m.Ops = w.traces, w.ops
	m.sample("SetWithCallback(1,10,20ms); Delete(1); Set(1,11,5ms); clock past both deadlines -> no callback")
	m.write(o.out)
}

// ------------------------------------------------------------------ key types (C18)
type named string
type padded struct {
	A uint8
	B uint64
	C uint16
}
type withStr struct {
	S string
	N int32
}
type withIface struct {
	I any
	N int
}

func invAvalanche(h uint64) uint64 {
	// inverse of keyhash.Avalanche: undo xorshift 32, multiply by inverse prime3, undo xorshift 29, inverse prime2, undo xorshift 33
	inv := func(a uint64) uint64 { // modular inverse of an odd number mod 2^64 (Newton)
		x := a
		for i := 0; i < 6; i++ {
			x *= 2 - a*x
		}
		return x
	}
	unx := func(v uint64, s uint) uint64 {
		r := v
		for i := uint(0); i < 64/s+1; i++ {
			r = v ^ (r >> s)
		}
		return r
	}
	h = unx(h, 32)
	h *= inv(0x165667B19E3779F9)
	h = unx(h, 29)
	h *= inv(0xC2B2AE3D27D4EB4F)
	h = unx(h, 33)
	return h
}

// shard count of the (unbounded) caches keyTrial builds; an unbounded cache keeps an explicit count above 256
var keyTrialShards = 4

func keyTrial[K comparable](m *meta, label string, mk func(i int) (K, K), n int, pol kioshun.EvictionPolicy) {
	if keyTrialShards != 4 {
		label = fmt.Sprintf("%s (%d shards)", label, keyTrialShards)
	}
	c, err := kioshun.New[K, int](kioshun.Config{MaxSize: 0, ShardCount: keyTrialShards, EvictionPolicy: pol})
	must(err)
	defer c.Close()
	// write through one representation, read / delete through an equal one
	for i := 0; i < n; i++ {
		a, b := mk(i)
		if a != b {
			continue // e.g. NaN
		}
		c.Set(a, i, kioshun.NoExpiration)
		if v, ok := c.Get(b); !ok || v != i {
			m.violate("C18", fmt.Sprintf("%s: Set through one representation of key #%d, Get through an equal one returned (%d,%v)", label, i, v, ok), label)
			return
		}
		if !c.Exists(b) {
			m.violate("C18", fmt.Sprintf("%s: Exists false for an equal key #%d", label, i), label)
		}
		c.Set(b, i+1000, kioshun.NoExpiration)
		if v, _ := c.Get(a); v != i+1000 {
			m.violate("C18", fmt.Sprintf("%s: overwrite through an equal key #%d not visible (got %d)", label, i, v), label)
		}
	}
	distinct := 0
	seen := map[K]bool{}
	for i := 0; i < n; i++ {
		a, b := mk(i)
		if a == b && !seen[a] {
			seen[a] = true
			distinct++
		}
	}
	if int(c.Size()) != distinct {
		m.violate("C18", fmt.Sprintf("%s: %d distinct keys written, Size()=%d (equal keys addressed different entries or distinct keys collided)", label, distinct, c.Size()), label)
	}
	// distinct keys never read each other's values
	for i := 0; i < n; i++ {
		a, b := mk(i)
		if a != b {
			continue
		}
		if v, ok := c.Get(a); ok && v != i+1000 {
			// a later equal key (same value of K) may have overwritten it
			same := false
			for j := i + 1; j < n; j++ {
				if x, y := mk(j); x == y && x == a && v == j+1000 {
					same = true
				}
			}
			if !same {
				m.violate("C18", fmt.Sprintf("%s: key #%d reads value %d written under another key", label, i, v), label)
			}
		}
	}
	for i := 0; i < n; i++ {
		_, b := mk(i)
		c.Delete(b)
	}
	if c.Size() != 0 {
		m.violate("C18", fmt.Sprintf("%s: after deleting through equal keys %d entries remain", label, c.Size()), label)
	}
	m.count("key_type_trials")
}

func streamKeys(o opts) {
	r := newRand(o.seed, "keys")
	m := newMeta("keys", o.seed)
	m.Rule = "for 20 key types (named strings, every integer width and sign, uintptr, float32/64 incl. +0/-0, structs with padding / string / interface fields, arrays, pointers, interface-typed keys) write through one representation and read/overwrite/delete through an equal one; integer keys whose hash is exactly 0, 1, 2, 3 (Avalanche inverted) and keys colliding modulo the table size; non-trivial = trial with at least two equal-but-differently-built keys and a hash-sentinel key; distinct by key type and policy"
	pols := []kioshun.EvictionPolicy{kioshun.LRU, kioshun.FIFO, kioshun.SieveTinyLFU, kioshun.LFU}
	x, y := new(int), new(int)
	for round := 0; round < o.n; round++ {
		pol := pols[round%len(pols)]
		keyTrialShards = []int{4, 512, 1, 1024}[(round+round/4)%4]
		n := 40 + r.Intn(60)
		seedv := r.Int63()
		keyTrial(m, "string", func(i int) (string, string) {
			s := fmt.Sprintf("k%d-%d", i%30, seedv)
			return s, string(append([]byte(nil), s...))
		}, n, pol)
		keyTrial(m, "named string", func(i int) (named, named) { s := fmt.Sprintf("n%d", i%25); return named(s), named(s + "")[:len(s)] }, n, pol)
		keyTrial(m, "int", func(i int) (int, int) { v := i%33 - 16; return v, int(int64(v)) }, n, pol)
		keyTrial(m, "int8", func(i int) (int8, int8) { v := int8(i*7 - 100); return v, int8(int16(v)) }, n, pol)
		keyTrial(m, "int16", func(i int) (int16, int16) { v := int16(i*997 - 20000); return v, v }, n, pol)
		keyTrial(m, "int32", func(i int) (int32, int32) { v := int32(i*99991 - 1<<30); return v, v }, n, pol)
		keyTrial(m, "int64", func(i int) (int64, int64) { v := int64(i)*(-1<<40) + 5; return v, v }, n, pol)
		keyTrial(m, "uint8", func(i int) (uint8, uint8) { v := uint8(i * 5); return v, v }, n, pol)
		keyTrial(m, "uint16", func(i int) (uint16, uint16) { v := uint16(i * 1021); return v, v }, n, pol)
		keyTrial(m, "uint32", func(i int) (uint32, uint32) { v := uint32(i) * 2654435761; return v, v }, n, pol)
		keyTrial(m, "uintptr", func(i int) (uintptr, uintptr) { v := uintptr(i) * 40503; return v, v }, n, pol)
		// 64-bit keys whose hash is a sentinel value or collides in small tables
		keyTrial(m, "uint64 with hash 0,1,2,3 and colliding homes", func(i int) (uint64, uint64) {
			var v uint64
			switch {
			case i < 4:
				v = invAvalanche(uint64(i))
			case i < 24:
				v = invAvalanche(uint64(i)<<8 | 1) // same low byte: same home in tables up to 256 slots
			default:
				v = uint64(i) * 0x9E3779B97F4A7C15
			}
			return v, v
		}, n, pol)
		keyTrial(m, "float64 incl. signed zero", func(i int) (float64, float64) {
			switch i % 6 {
			case 0:
				return 0.0, math.Copysign(0, -1)
			case 1:
				return math.Copysign(0, -1), 0.0
			case 2:
				return math.NaN(), math.NaN()
			}
			v := float64(i%20) * 1.5
			return v, v + 0
		}, n, pol)
		keyTrial(m, "float32 incl. signed zero", func(i int) (float32, float32) {
			if i%5 == 0 {
				return 0, float32(math.Copysign(0, -1))
			}
			v := float32(i%20) / 3
			return v, v
		}, n, pol)
		keyTrial(m, "struct with padding", func(i int) (padded, padded) {
			a := padded{uint8(i % 3), uint64(i % 11), uint16(i % 2)}
			var b padded
			// dirty the padding bytes of b before assigning the fields
			p := (*[unsafe.Sizeof(b)]byte)(unsafe.Pointer(&b))
			for j := range p {
				p[j] = 0xAA
			}
			b.A, b.B, b.C = a.A, a.B, a.C
			return a, b
		}, n, pol)
		keyTrial(m, "struct with string field", func(i int) (withStr, withStr) {
			s := fmt.Sprintf("s%d", i%9)
			return withStr{s, int32(i % 4)}, withStr{string([]byte(s)), int32(i % 4)}
		}, n, pol)
		keyTrial(m, "struct with interface field", func(i int) (withIface, withIface) {
			return withIface{i % 7, i % 3}, withIface{int(int8(i % 7)), i % 3}
		}, n, pol)
		keyTrial(m, "array", func(i int) ([3]int16, [3]int16) { a := [3]int16{int16(i % 5), 2, int16(i % 3)}; return a, a }, n, pol)
		keyTrial(m, "pointer", func(i int) (*int, *int) {
			if i%2 == 0 {
				return x, x
			}
			return y, y
		}, n, pol)
		keyTrial(m, "interface-typed key", func(i int) (any, any) {
			switch i % 4 {
			case 0:
				return i % 10, int(int32(i % 10))
			case 1:
				s := fmt.Sprintf("i%d", i%10)
				return s, string([]byte(s))
			case 2:
				return float64(0), math.Copysign(0, -1)
			}
			return padded{1, uint64(i % 4), 3}, padded{1, uint64(i % 4), 3}
		}, n, pol)
		keyTrial(m, "array of strings", func(i int) ([2]string, [2]string) {
			s, t := fmt.Sprintf("a%d", i%7), fmt.Sprintf("b%d", i%3)
			return [2]string{s, t}, [2]string{string([]byte(s)), strings.Clone(t)}
		}, n, pol)
		keyTrial(m, "array of structs with strings", func(i int) ([2]withStr, [2]withStr) {
			s := fmt.Sprintf("q%d", i%6)
			return [2]withStr{{s, 1}, {"z", int32(i % 2)}}, [2]withStr{{string([]byte(s)), 1}, {strings.Clone("z"), int32(i % 2)}}
		}, n, pol)
		keyTrial(m, "nested struct", func(i int) (nestedKey, nestedKey) {
			s := fmt.Sprintf("n%d", i%5)
			return nestedKey{withStr{s, 2}, [2]uint8{uint8(i % 3), 7}, i%2 == 0}, nestedKey{withStr{string([]byte(s)), 2}, [2]uint8{uint8(i % 3), 7}, i%2 == 0}
		}, n, pol)
		keyTrial(m, "bool", func(i int) (bool, bool) { return i%2 == 0, i%2 == 0 }, n, pol)
		keyTrial(m, "complex128", func(i int) (complex128, complex128) {
			if i%4 == 0 {
				return complex(0, 0), complex(math.Copysign(0, -1), 0)
			}
			return complex(float64(i%5), 1), complex(float64(i%5), 1)
		}, n, pol)
		keyTrial(m, "long string differing late", func(i int) (string, string) {
			s := strings.Repeat("x", 40+i%3) + fmt.Sprint(i%9)
			return s, string([]byte(s))
		}, n, pol)
		concurrentKeyTrial(m, pol, round)
		pointerKeyTrial(m, pol, round)
		m.nontrivial(fmt.Sprintf("round%d/p%d", round%8, pol))
	}
	m.Traces, m.Ops = o.n*20, o.n*20*200
	m.sample("float64 key: Set(+0.0) then Get(-0.0); uint64 key whose Avalanche hash is exactly 1 stored next to a colliding key")
	m.write(o.out)
}

type nestedKey struct {
	S withStr
	A [2]uint8
	B bool
}

// concurrentKeyTrial: equal keys address the same entry also when several goroutines hash at the same time (the
// hasher must not carry mutable state shared between callers): 256 struct keys and 256 array keys in an unbounded
// cache, eight goroutines read and rewrite them through freshly built equal keys.
func concurrentKeyTrial(m *meta, pol kioshun.EvictionPolicy, round int) {
	c, err := kioshun.New[withStr, int](kioshun.Config{MaxSize: 0, ShardCount: 4, EvictionPolicy: pol})
	must(err)
	defer c.Close()
	c2, err := kioshun.New[[2]string, int](kioshun.Config{MaxSize: 0, ShardCount: 4, EvictionPolicy: pol})
	must(err)
	defer c2.Close()
	const nk = 256
	for i := 0; i < nk; i++ {
		c.Set(withStr{fmt.Sprintf("c%d", i), int32(i)}, i, kioshun.NoExpiration)
		c2.Set([2]string{fmt.Sprintf("d%d", i), "t"}, i, kioshun.NoExpiration)
	}
	var wg sync.WaitGroup
	var miss atomic.Int64
	for g := 0; g < 8; g++ {
		wg.Add(1)
		go func(g int) {
			defer wg.Done()
			for i, t0 := 0, time.Now(); i < 4000 && time.Since(t0) < time.Second; i++ {
				k := (i*7 + g) % nk
				if v, ok := c.Get(withStr{string([]byte(fmt.Sprintf("c%d", k))), int32(k)}); !ok || v != k {
					miss.Add(1)
				}
				c.Set(withStr{fmt.Sprintf("c%d", k), int32(k)}, k, kioshun.NoExpiration)
				if v, ok := c2.Get([2]string{string([]byte(fmt.Sprintf("d%d", k))), strings.Clone("t")}); !ok || v != k {
					miss.Add(1)
				}
				c2.Set([2]string{fmt.Sprintf("d%d", k), "t"}, k, kioshun.NoExpiration)
			}
		}(g)
	}
	wg.Wait()
	if miss.Load() > 0 || c.Size() != nk || c2.Size() != nk {
		m.violate("C18", fmt.Sprintf("concurrent trial (policy %v): %d resident struct / array keys read and rewritten through equal keys by 8 goroutines: %d lookups missed, Size()=%d and %d (want %d each): equal keys addressed different entries under concurrent hashing", pol, nk, miss.Load(), c.Size(), c2.Size(), nk), "concurrent keys")
	}
	m.count("concurrent_key_trials")
}

// pointerKeyTrial: pointer keys (concrete and behind an interface-typed key) are identified by their address:
// writing through the pointer between calls must not change which entry the key addresses.
func pointerKeyTrial(m *meta, pol kioshun.EvictionPolicy, round int) {
	ca, err := kioshun.New[any, int](kioshun.Config{ShardCount: 4, EvictionPolicy: pol})
	must(err)
	defer ca.Close()
	cp, err := kioshun.New[*int64, int](kioshun.Config{ShardCount: 4, EvictionPolicy: pol})
	must(err)
	defer cp.Close()
	pi, ps, pn, pst := new(int64), new(string), new(named), &padded{1, 2, 3}
	keys := []any{pi, ps, pn, pst, 7, "seven"}
	for i, k := range keys {
		ca.Set(k, i, kioshun.NoExpiration)
	}
	cp.Set(pi, 100, kioshun.NoExpiration)
	*pi, *ps, *pn, pst.B = int64(round+41), fmt.Sprint("changed", round), named("renamed"), 99 // pointees change, addresses do not
	for i, k := range keys {
		if v, ok := ca.Get(k); !ok || v != i {
			m.violate("C18", fmt.Sprintf("interface-typed key holding %T: after writing through the pointer Get returned (%d,%v), want (%d,true)", k, v, ok, i), "pointer keys")
		}
		ca.Set(k, i+10, kioshun.NoExpiration)
	}
	if n := ca.Size(); n != int64(len(keys)) {
		m.violate("C18", fmt.Sprintf("interface-typed pointer keys: re-Set through the same pointers created duplicates: Size %d, want %d", n, len(keys)), "pointer keys")
	}
	if v, ok := cp.Get(pi); !ok || v != 100 {
		m.violate("C18", fmt.Sprintf("*int64 key: after writing through the pointer Get returned (%d,%v)", v, ok), "pointer keys")
	}
	for _, k := range keys {
		if !ca.Delete(k) {
			m.violate("C18", fmt.Sprintf("interface-typed key holding %T: Delete through the same pointer found nothing", k), "pointer keys")
		}
	}
	if n := ca.Size(); n != 0 {
		m.violate("C18", fmt.Sprintf("interface-typed pointer keys: %d entries left after deleting every key", n), "pointer keys")
	}
}

// ------------------------------------------------------------------ read buffer (C11, C19 input path)

const sidRb = 75

// streamRb drives ONE stripe of a real shard's read buffer with whole samples and whole drains and compares the
// back-pressure flag, the cursors and the exact list of fingerprints replayed into the sketch with ReadBuffer.v.
func streamRb(o opts) {
	r := newRand(o.seed, "rb")
	m := newMeta("rb", o.seed)
	m.Rule = "sample / drainStripe sequences on one stripe of a real SieveTinyLFU shard's read buffer (fingerprints incl. 0, bursts shorter than, equal to and several times longer than the 64-slot window, so that producers lap the consumer); after each sample the needDrain flag and (tail, head), after each drain the fingerprints handed to the sketch in order and (tail, head) are compared with the ReadBuffer model; non-trivial = trace with a lapped window; distinct by (burst profile)"
	w := newTraceWriter(o.out, "rb")
	kioshun.VerifTraceOn(true)
	defer kioshun.VerifTraceOn(false)
	for t := 0; t < o.n; t++ {
		c, err := kioshun.New[int, int](kioshun.Config{MaxSize: 64, ShardCount: 1, EvictionPolicy: kioshun.SieveTinyLFU})
		must(err)
		w.T(sidRb, &toks{})
		kioshun.VerifTakeTrace()
		lapped := false
		nops := 3 + r.Intn(8)
		for i := 0; i < nops; i++ {
			burst := pick(r, []int{1, 3, 20, 63, 64, 65, 100, 130, 200})
			if burst > 64 {
				lapped = true
			}
			for j := 0; j < burst; j++ {
				h := uint64(r.Intn(50))
				if r.Intn(10) == 0 {
					h = uint64(r.Int63())
				}
				_, need := c.VerifSampleRead(0, h, 0)
				tl, hd := c.VerifStripeState(0, 0)
				w.O(ints(1, int64(h)), (&toks{}).B(need).I(int64(tl), int64(hd)))
			}
			kioshun.VerifTakeTrace()
			c.VerifDrainStripe(0, 0)
			res := &toks{}
			for _, e := range kioshun.VerifTakeTrace() {
				if e.Kind == kioshun.VerifEvSample {
					res.I(e.A)
					if e.A == 0 {
						m.violate("C11", fmt.Sprintf("rb trace %d: a zero fingerprint was replayed into the sketch", t), fmt.Sprint(t))
					}
				}
			}
			tl, hd := c.VerifStripeState(0, 0)
			if tl != hd {
				m.violate("C11", fmt.Sprintf("rb trace %d: after a drain with no concurrent producer head=%d tail=%d", t, hd, tl), fmt.Sprint(t))
			}
			res.I(-1, int64(tl), int64(hd))
			w.O(ints(2), res)
		}
		c.Close()
		if lapped {
			m.nontrivial(fmt.Sprintf("ops%d", nops))
		}
	}
	// single consumer: while another goroutine holds the drain token (as the write worker does during its pre-batch
	// replay), a reader that hits back-pressure must NOT replay the stripe itself
	for rep := 0; rep < 3; rep++ {
		c, err := kioshun.New[int, int](kioshun.Config{MaxSize: 64, ShardCount: 1, EvictionPolicy: kioshun.SieveTinyLFU})
		must(err)
		for k := 0; k < 48; k++ {
			c.Set(k, k, kioshun.NoExpiration) // past warm-up: reads are sampled
		}
		c.Get(7)
		c.VerifHoldDrain(0, true)
		kioshun.VerifTakeTrace()
		done := make(chan struct{})
		go func() {
			for i := 0; i < 3200; i++ {
				c.Get(7)
			}
			close(done)
		}()
		select {
		case <-done:
		case <-time.After(10 * time.Second):
			m.violate("C07", "rb: reads of a hot key did not return within 10 s while the drain token was held", "second consumer")
		}
		n := 0
		for _, e := range kioshun.VerifTakeTrace() {
			if e.Kind == kioshun.VerifEvSample {
				n++
			}
		}
		c.VerifHoldDrain(0, false)
		if n > 0 {
			m.violate("C11", fmt.Sprintf("rb: while the drain token was held by another goroutine, a reader replayed %d read samples into the frequency sketch (a second consumer of the stripe: unsynchronised access to the sketch and doorkeeper)", n), "second consumer")
		}
		c.Close()
		m.count("second_consumer_checks")
	}
	// fewer stripes than stripe ids (a cache built while GOMAXPROCS is small, readers whose per-P id is larger):
	// every sample must land in a valid stripe, mark that stripe dirty, and be replayed by the write path's own
	// drainReadSamples (reached through a synchronous Set) without a panic.
	for _, procs := range []int{1, 2, 4} {
		func() {
			prev := runtime.GOMAXPROCS(procs)
			c, err := kioshun.New[int, int](kioshun.Config{MaxSize: 64, ShardCount: 1, EvictionPolicy: kioshun.SieveTinyLFU})
			runtime.GOMAXPROCS(prev)
			must(err)
			panicked := false
			defer func() {
				if !panicked { // after a panic the shard's locks are still held: Close would block, leak the cache instead
					c.Close()
				}
			}()
			ctx := fmt.Sprintf("read buffer built with GOMAXPROCS=%d", procs)
			defer func() {
				if p := recover(); p != nil {
					panicked = true
					m.violate("C11", fmt.Sprintf("%s: panic on the write path after samples from stripe ids 0..31: %v", ctx, p), ctx)
				}
			}()
			kioshun.VerifTakeTrace()
			want := map[int64]int{}
			for id := uint64(0); id < 32; id++ {
				h := uint64(1000 + id)
				c.VerifSampleRead(0, h, id)
				want[int64(h)]++
			}
			c.Set(1, 1, kioshun.NoExpiration) // syncMutate -> drainShardQueue -> drainReadSamples
			got := map[int64]int{}
			for _, e := range kioshun.VerifTakeTrace() {
				if e.Kind == kioshun.VerifEvSample {
					got[e.A]++
				}
			}
			for h, n := range want {
				if got[h] != n {
					m.violate("C11", fmt.Sprintf("%s: fingerprint %d sampled through stripe id %d was replayed %d times by the write path's drain, want %d (a stripe that holds samples was not marked dirty)", ctx, h, h-1000, got[h], n), ctx)
					break
				}
			}
			m.count("small_stripe_checks")
		}()
	}
	w.Close()
	m.Traces, m.Ops = w.traces, w.ops
	m.write(o.out)
}

// ------------------------------------------------------------------ striped statistics counters (C10)

const sidSc = 48

// streamSc drives a real striped statistics block (stats.go) sequentially and compares, after every aggregate, the
// total and every stripe with StripedCounter.v; then hammers it from more goroutines than stripes and checks the total.
func streamSc(o opts) {
	r := newRand(o.seed, "sc")
	m := newMeta("sc", o.seed)
	m.Rule = "recordHit with arbitrary stripe ids (reduced by the mask) and aggregate calls on real striped counters built for parallelism 1..64 (1..16 stripes); after every aggregate the total and each stripe are compared with the StripedCounter model; then 64 goroutines x 20000 increments on 64 Ps against at most 16 stripes: the total must be exact; non-trivial = trace with more ids than stripes; distinct by stripe count"
	w := newTraceWriter(o.out, "sc")
	for t := 0; t < o.n; t++ {
		par := pick(r, []int{1, 2, 3, 4, 7, 8, 16, 33, 64})
		st := kioshun.NewVerifStats(par)
		n := st.Stripes()
		w.T(sidSc, ints(int64(n)))
		recorded := int64(0)
		for i, ops := 0, 20+r.Intn(80); i < ops; i++ {
			if r.Intn(5) == 0 {
				if got := st.Aggregate(); got != recorded {
					m.violate("C10", fmt.Sprintf("striped counters built for parallelism %d (%d stripes): %d recordHit calls (stripe ids up to 4x the stripe count), aggregate reports %d", par, n, recorded, got), "striped counters")
				}
				res := ints(st.Aggregate())
				for j := 0; j < n; j++ {
					res.I(st.Stripe(j))
				}
				w.O(ints(2), res)
				continue
			}
			id := uint64(r.Intn(4 * n))
			if r.Intn(10) == 0 {
				id = uint64(r.Int63())
			}
			st.RecordHit(id)
			recorded++
			w.O(ints(1, int64(id)), &toks{})
		}
		res := ints(st.Aggregate())
		for j := 0; j < n; j++ {
			res.I(st.Stripe(j))
		}
		w.O(ints(2), res)
		if par > n || true {
			m.nontrivial(fmt.Sprintf("stripes%d", n))
		}
	}
	// concurrent: more running Ps than stripes
	prev := runtime.GOMAXPROCS(64)
	for rep := 0; rep < 3; rep++ {
		st := kioshun.NewVerifStats(64)
		var wg sync.WaitGroup
		const workers, per = 64, 20000
		for g := 0; g < workers; g++ {
			wg.Add(1)
			go func(g int) {
				defer wg.Done()
				for i := 0; i < per; i++ {
					st.RecordHit(uint64(g + i))
				}
			}(g)
		}
		wg.Wait()
		if got := st.Aggregate(); got != workers*per {
			m.violate("C10", fmt.Sprintf("striped counters: %d goroutines x %d recordHit calls on 64 Ps, aggregate reports %d (lost updates)", workers, per, got), "striped counters")
		}
	}
	runtime.GOMAXPROCS(prev)
	w.Close()
	m.Traces, m.Ops = w.traces, w.ops
	m.write(o.out)
}
