//go:build verif

package main

import (
	"fmt"
	"sync"
	"time"

	"github.com/unkn0wn-root/kioshun"
)

// T-lockstep streams: the REAL table ("htl") and the REAL write ring ("ql") run under the
// cooperative scheduler of the verif build. Harness goroutines park at the yield points placed
// between the atomic accesses of the implementation; a random schedule picks which thread runs
// to its next yield; after every step the yield point reached (or the operation's result) is
// compared with what the atomic-step LTS (HtableLts / QueueLts, extracted) predicts.

const (
	sidHtl = 121
	sidQl  = 41
)

type lsResult struct{ r1, r2 int64 }

type lsThread struct {
	id   int
	run  func(t *lsThread)
	res  lsResult
	done bool
	left int // operations not yet completed
}

// runOps executes fns in order, parking at an operation boundary (point 0) after each.
func (t *lsThread) runOps(fns []func() lsResult) {
	for _, f := range fns {
		t.res = f()
		kioshun.VerifYield(0)
	}
}

func streamHtl(o opts) {
	r := newRand(o.seed, "htl")
	m := newMeta("htl", o.seed)
	m.Rule = "one writer script (store / remove / probe+publish / probe+unpin / probe+swap / clear on 3-10 keys with colliding, sentinel and wrapping hashes, growth and same-size rebuilds) and 1-3 lock-free readers run on the real htable under the cooperative scheduler; a random schedule interleaves them at every yield point (between tag and item loads/stores); after every step the yield point reached or the operation result is compared with the HtableLts prediction; non-trivial = schedule in which a reader was parked between its tag load and item load while the writer stored into the table; distinct by (keys, readers, writer ops, that flag)"
	w := newTraceWriter(o.out, "htl")
	for t := 0; t < o.n; t++ {
		capHint := pick(r, []int{0, 0, 2, 4})
		h := kioshun.NewVerifHtable(capHint)
		w.T(sidHtl, ints(int64(capHint)))
		nkeys := 3 + r.Intn(8)
		hashes := make([]uint64, nkeys)
		for i := range hashes {
			switch r.Intn(6) {
			case 0:
				hashes[i] = uint64(r.Intn(4))
			case 1:
				hashes[i] = 7 + 8*uint64(r.Intn(4))
			case 2, 3:
				hashes[i] = 5
			default:
				hashes[i] = uint64(r.Intn(1 << 20))
			}
		}
		// ---- writer script, generated against a reference map so that the calling protocol is respected
		ref := map[int]bool{}
		type wop struct {
			kind, k int
			v       int
		}
		var wops []wop
		val := 0
		nw := 4 + r.Intn(14)
		for i := 0; i < nw; i++ {
			k := r.Intn(nkeys)
			val++
			switch c := r.Intn(100); {
			case c < 40:
				wops = append(wops, wop{1, k, val})
				ref[k] = true
			case c < 60:
				wops = append(wops, wop{2, k, 0})
				delete(ref, k)
			case c < 92:
				wops = append(wops, wop{3, k, 0})
				if ref[k] {
					wops = append(wops, wop{6, k, val})
				} else {
					for g := r.Intn(3); g > 0; g-- {
						v := r.Intn(nkeys)
						if v != k {
							wops = append(wops, wop{2, v, 0})
							delete(ref, v)
						}
					}
					if r.Intn(4) == 0 {
						wops = append(wops, wop{5, 0, 0})
					} else {
						wops = append(wops, wop{4, k, val})
						ref[k] = true
					}
				}
			default:
				wops = append(wops, wop{7, 0, 0})
				ref = map[int]bool{}
			}
		}
		nreaders := 1 + r.Intn(3)
		threads := make([]*lsThread, 1+nreaders)
		// declare scripts to the model and build the goroutine bodies
		var wf []func() lsResult
		for _, op := range wops {
			op := op
			hh := uint64(0)
			if op.kind != 5 && op.kind != 7 {
				hh = hashes[op.k]
			}
			w.O((&toks{}).I(1, 0, int64(op.kind), int64(op.k)).U(hh).I(int64(op.v)), &toks{})
			switch op.kind {
			case 1:
				wf = append(wf, func() lsResult {
					pv, had := h.Store(op.k, hh, op.v)
					if had {
						return lsResult{1, int64(pv)}
					}
					return lsResult{0, 0}
				})
			case 2:
				wf = append(wf, func() lsResult {
					if h.Remove(op.k, hh) {
						return lsResult{1, 0}
					}
					return lsResult{0, 0}
				})
			case 3:
				wf = append(wf, func() lsResult {
					found, v := h.Probe(op.k, hh)
					if found {
						return lsResult{1, int64(v)}
					}
					return lsResult{0, 0}
				})
			case 4:
				wf = append(wf, func() lsResult { h.Publish(op.k, hh, op.v); return lsResult{} })
			case 5:
				wf = append(wf, func() lsResult { h.Unpin(); return lsResult{} })
			case 6:
				wf = append(wf, func() lsResult { h.SwapAt(op.k, hh, op.v); return lsResult{} })
			case 7:
				wf = append(wf, func() lsResult { h.Clear(); return lsResult{} })
			}
		}
		threads[0] = &lsThread{id: 0, left: len(wf)}
		threads[0].run = func(t *lsThread) { t.runOps(wf) }
		for ri := 1; ri <= nreaders; ri++ {
			var rf []func() lsResult
			nl := 1 + r.Intn(4)
			for j := 0; j < nl; j++ {
				k := r.Intn(nkeys)
				hh := hashes[k]
				w.O((&toks{}).I(1, int64(ri), 10, int64(k)).U(hh).I(0), &toks{})
				rf = append(rf, func() lsResult {
					if v, ok := h.Lookup(k, hh); ok {
						return lsResult{1, int64(v)}
					}
					return lsResult{0, 0}
				})
			}
			th := &lsThread{id: ri, left: len(rf)}
			th.run = func(t *lsThread) { t.runOps(rf) }
			threads[ri] = th
		}
		// ---- run a random schedule
		watch(fmt.Sprintf("htl trace %d", t))
		kioshun.VerifSchedReset(true, 2*time.Second)
		for _, th := range threads {
			th := th
			kioshun.VerifSchedSpawn(th.id, func() {
				defer func() {
					if p := recover(); p != nil {
						for _, prop := range []string{"C12", "C11", "C02", "C18"} {
							m.violate(prop, fmt.Sprintf("htl trace %d: panic inside a table operation under the scheduler: %v", t, p), fmt.Sprint(t))
						}
					}
				}()
				th.run(th)
			})
		}
		readerMid, writerStoredWhileReaderMid := false, false
		parkedAt := make([]int, len(threads))
		steps := 0
		for {
			var live []*lsThread
			for _, th := range threads {
				if th.left > 0 {
					live = append(live, th)
				}
			}
			if len(live) == 0 || steps > 5000 {
				break
			}
			th := pick(r, live)
			if r.Intn(3) > 0 && threads[0].left > 0 && r.Intn(2) == 0 {
				th = threads[0]
			}
			p := kioshun.VerifSchedStep(th.id)
			steps++
			obs := &toks{}
			switch {
			case p == 0:
				th.left--
				obs.I(0, th.res.r1, th.res.r2)
			case p > 0:
				obs.I(int64(p), 0, 0)
			default:
				obs.I(int64(p))
				th.left = 0
			}
			parkedAt[th.id] = p
			if th.id == 0 && p >= 211 {
				for ri := 1; ri <= nreaders; ri++ {
					if parkedAt[ri] == 203 {
						writerStoredWhileReaderMid = true
					}
				}
			}
			if th.id > 0 && p == 203 {
				readerMid = true
			}
			w.O(ints(2, int64(th.id)), obs)
		}
		// let every goroutine finish (each is parked at its last boundary)
		for _, th := range threads {
			for i := 0; i < 50; i++ {
				if kioshun.VerifSchedStep(th.id) < 0 {
					break
				}
			}
		}
		kioshun.VerifSchedReset(false, 0)
		unwatch()
		m.countN("schedule_steps", int64(steps))
		if readerMid && writerStoredWhileReaderMid {
			m.nontrivial(fmt.Sprintf("k%d/r%d/w%d", nkeys, nreaders, len(wops)/4))
		}
		if t < 3 {
			m.sample(fmt.Sprintf("htl trace %d: %d writer ops, %d readers, %d schedule steps", t, len(wops), nreaders, steps))
		}
	}
	w.Close()
	m.Traces, m.Ops = w.traces, w.ops
	m.write(o.out)
}

func streamQl(o opts) {
	r := newRand(o.seed, "ql")
	m := newMeta("ql", o.seed)
	m.Rule = "2-4 raw producers (enqueue) and one raw consumer (tryDequeue / take wake token / clear wakeState / ready / re-arm CAS / close) on the REAL mpscQueue (ring 2 or 4) under the cooperative scheduler; a random schedule interleaves them at every yield point between atomic accesses; producers parked before the blocking select are only stepped when the space token or close makes the step enabled; after every step the yield point or result is compared with the QueueLts prediction; non-trivial = schedule with a lap of the ring and a producer released by the space token; distinct by (ring, producers, lap, release)"
	w := newTraceWriter(o.out, "ql")
	for t := 0; t < o.n; t++ {
		ring := pick(r, []int{1, 2, 2, 3, 4})
		q := kioshun.NewVerifMPSC(ring)
		_, _, _, _, _, rsz := q.State()
		w.T(sidQl, ints(int64(rsz), 1))
		np := 2 + r.Intn(3)
		threads := make([]*lsThread, np+1)
		id := 0
		for pi := 0; pi < np; pi++ {
			var fs []func() lsResult
			n := 1 + r.Intn(4)
			for j := 0; j < n; j++ {
				id++
				v := id
				w.O(ints(1, int64(pi), 1, int64(v)), &toks{})
				fs = append(fs, func() lsResult {
					if err := q.Enqueue(v); err != nil {
						return lsResult{3, 0}
					}
					return lsResult{0, 0}
				})
			}
			th := &lsThread{id: pi, left: len(fs)}
			th.run = func(t *lsThread) { t.runOps(fs) }
			threads[pi] = th
		}
		var cf []func() lsResult
		nc := 4 + r.Intn(14)
		willClose := r.Intn(4) == 0
		for j := 0; j < nc; j++ {
			kind := pick(r, []int{2, 2, 2, 3, 4, 5, 6})
			arg := 1 + r.Intn(3)
			if willClose && j == nc-1 {
				kind = 7
			}
			w.O(ints(1, int64(np), int64(kind), int64(arg)), &toks{})
			b2 := func(b bool) lsResult {
				if b {
					return lsResult{1, 0}
				}
				return lsResult{0, 0}
			}
			switch kind {
			case 2:
				cf = append(cf, func() lsResult {
					got := q.TryDequeue(arg)
					if len(got) == 0 {
						return lsResult{0, 0}
					}
					return lsResult{int64(len(got)), int64(got[0])}
				})
			case 3:
				cf = append(cf, func() lsResult { return b2(q.TakeWake()) })
			case 4:
				cf = append(cf, func() lsResult { q.ClearWakeState(); return lsResult{} })
			case 5:
				cf = append(cf, func() lsResult { return b2(q.Ready()) })
			case 6:
				cf = append(cf, func() lsResult { return b2(q.RearmWake()) })
			case 7:
				cf = append(cf, func() lsResult { q.Close(); return lsResult{} })
			}
		}
		cth := &lsThread{id: np, left: len(cf)}
		cth.run = func(t *lsThread) { t.runOps(cf) }
		threads[np] = cth
		watch(fmt.Sprintf("ql trace %d", t))
		kioshun.VerifSchedReset(true, 2*time.Second)
		for _, th := range threads {
			th := th
			kioshun.VerifSchedSpawn(th.id, func() {
				defer func() {
					if p := recover(); p != nil {
						for _, prop := range []string{"C04", "C07"} {
							m.violate(prop, fmt.Sprintf("ql trace %d: panic inside a ring operation under the scheduler: %v", t, p), fmt.Sprint(t))
						}
					}
				}()
				th.run(th)
			})
		}
		parkedAt := make([]int, len(threads))
		steps, lapped, released := 0, false, false
		closed := false
		for steps < 4000 {
			var enabled []*lsThread
			head, tail, _, _, spaceTok, _ := q.State()
			if head-tail >= uint64(rsz) {
				lapped = true
			}
			for _, th := range threads {
				if th.left == 0 {
					continue
				}
				if parkedAt[th.id] == 108 {
					// blocked in select unless exactly one of the two cases is ready
					if spaceTok == closed {
						continue
					}
				}
				enabled = append(enabled, th)
			}
			if len(enabled) == 0 {
				break
			}
			th := pick(r, enabled)
			was108 := parkedAt[th.id] == 108
			p := kioshun.VerifSchedStep(th.id)
			steps++
			obs := &toks{}
			switch {
			case p == 0:
				th.left--
				obs.I(0, th.res.r1, th.res.r2)
			case p > 0:
				obs.I(int64(p), 0, 0)
				if was108 && p == 101 {
					released = true
				}
			default:
				obs.I(int64(p))
				th.left = 0
			}
			parkedAt[th.id] = p
			if th.id == np && p == 0 && willClose && th.left == 0 {
				closed = true
			}
			w.O(ints(2, int64(th.id)), obs)
		}
		// release anything still parked: close the channel and drain goroutines
		if !closed {
			q.Close()
		}
		for _, th := range threads {
			for i := 0; i < 200; i++ {
				if kioshun.VerifSchedStep(th.id) < 0 {
					break
				}
			}
		}
		kioshun.VerifSchedReset(false, 0)
		unwatch()
		m.countN("schedule_steps", int64(steps))
		if lapped && released {
			m.nontrivial(fmt.Sprintf("ring%d/p%d", rsz, np))
		}
		if t < 3 {
			m.sample(fmt.Sprintf("ql trace %d: ring %d, %d producers, %d consumer ops, %d steps", t, rsz, np, nc, steps))
		}
	}
	w.Close()
	m.Traces, m.Ops = w.traces, w.ops
	m.write(o.out)
}

// ---------------------------------------------------------------------------------------------
// "qc": cache-level T-lockstep for the asynchronous write pipeline (C04, C07, C08). Threads calling
// SetAsync / Set / Sync / Close / Get-miss on ONE key of a one-shard real cache, plus the shard's write
// worker (adopted by the scheduler), run under random schedules; after every step the yield point or the
// operation result AND the shared queue state (head, tail, wakeState, wake/space tokens, closeCh, drain
// token) are compared with QueueLts. Steps that would block are never scheduled (enabledness is computed
// from the real state), two-way selects with both cases ready report the branch Go took as an oracle bit.

const sidQc = 42

func qcInModel(p int) bool {
	switch {
	case p <= 0, p >= 101 && p <= 108, p >= 121 && p <= 126, p >= 301 && p <= 313, p >= 321 && p <= 323, p >= 331 && p <= 333, p >= 339 && p <= 343:
		return true
	}
	return false
}

// qcStep runs thread id to its next yield point that the queue model knows (table yields are passed through).
func qcStep(id int) int {
	for {
		p := kioshun.VerifSchedStep(id)
		if qcInModel(p) {
			return p
		}
	}
}

type qcThread struct {
	tid, sid   int // model thread index, scheduler id
	kind       int
	left       int
	at         int // yield point parked at
	res        lsResult
	ackOrd     int64 // ordinal of the barrier this thread has in flight
	inBarrier  bool
	finished   bool
	syncResult *int64
}

func streamQc(o opts) {
	r := newRand(o.seed, "qc")
	m := newMeta("qc", o.seed)
	m.Rule = "1-3 SetAsync producers, 0-2 synchronous Set writers, 0-1 Sync callers, 0-1 Close caller, 0-1 Get-miss helper (SieveTinyLFU) and the adopted write worker on a one-shard REAL cache with ring 2 or 4 and batch 1-3, all writes to one key; a random schedule interleaves them at every yield point; only enabled steps are scheduled (blocking points are decided from the real lock/channel state); after every step the yield point or result and the shared queue state are compared with QueueLts; at the end (no Close) the key's value must be the last write the model applied; non-trivial = schedule with a queued write, a worker drain and a lap or a Sync; distinct by (ring, batch, thread mix)"
	w := newTraceWriter(o.out, "qc")
	for t := 0; t < o.n; t++ {
		pol := pick(r, []kioshun.EvictionPolicy{kioshun.LRU, kioshun.FIFO, kioshun.SieveTinyLFU, kioshun.SieveTinyLFU})
		conf := kioshun.Config{ShardCount: 1, MaxSize: 64, EvictionPolicy: pol, WriteBufferSize: pick(r, []int{2, 2, 4}), WriteBatchSize: pick(r, []int{1, 2, 3})}
		ctx := fmt.Sprintf("qc trace %d cfg %+v", t, conf)
		watch(ctx)
		kioshun.VerifSchedReset(true, 3*time.Second)
		kioshun.VerifSchedAdoptWorkers(true)
		c, err := kioshun.New[int, int](conf)
		must(err)
		for i := 0; i < 5000 && !kioshun.VerifSchedKnown(1000); i++ {
			time.Sleep(100 * time.Microsecond)
		}
		kioshun.VerifSchedAdoptWorkers(false)
		_, _, _, ring := c.VerifRingState(0)
		w.T(sidQc, ints(int64(ring), int64(conf.WriteBatchSize)))
		acks0 := kioshun.VerifAcksSent()
		var ths []*qcThread
		nextID := int64(0)
		mk := func(kind, nops int) {
			th := &qcThread{tid: len(ths), sid: len(ths) + 1, kind: kind, left: nops}
			ths = append(ths, th)
			var fs []func() lsResult
			for j := 0; j < nops; j++ {
				nextID++
				id := nextID
				w.O(ints(1, int64(th.tid), int64(kind), id), &toks{})
				code := func(e error) lsResult {
					if e != nil {
						return lsResult{3, 0}
					}
					return lsResult{0, 0}
				}
				switch kind {
				case 11:
					fs = append(fs, func() lsResult { return code(c.SetAsync(7, int(id), kioshun.NoExpiration)) })
				case 12:
					fs = append(fs, func() lsResult { return code(c.Set(7, int(id), kioshun.NoExpiration)) })
				case 13:
					fs = append(fs, func() lsResult { return code(c.Sync()) })
				case 14:
					fs = append(fs, func() lsResult { c.Close(); return lsResult{} })
				case 16:
					fs = append(fs, func() lsResult { c.Get(999); return lsResult{} })
				}
			}
			sid := th.sid
			kioshun.VerifSchedSpawn(sid, func() {
				defer func() {
					if p := recover(); p != nil {
						for _, prop := range []string{"C04", "C07", "C08"} {
							m.violate(prop, fmt.Sprintf("%s: panic in a public call under the scheduler: %v", ctx, p), ctx)
						}
					}
				}()
				for _, f := range fs {
					th.res = f()
					kioshun.VerifYield(0)
				}
			})
		}
		np := 1 + r.Intn(3)
		for i := 0; i < np; i++ {
			mk(11, 1+r.Intn(4))
		}
		for i, n := 0, r.Intn(3); i < n; i++ {
			mk(12, 1+r.Intn(2))
		}
		hasSync := r.Intn(2) == 0
		if hasSync {
			mk(13, 1+r.Intn(2))
		}
		hasClose := r.Intn(3) == 0
		if hasClose {
			mk(14, 1)
		}
		if pol == kioshun.SieveTinyLFU && r.Intn(2) == 0 {
			mk(16, 1+r.Intn(3))
		}
		worker := &qcThread{tid: len(ths), sid: 1000, kind: 15, left: 1, at: -100}
		ths = append(ths, worker)
		w.O(ints(1, int64(worker.tid), 15, 0), &toks{})
		// the adopted worker is parked at its entry (point 0)
		if p := kioshun.VerifSchedStep(1000); p != 0 {
			m.count("qc_setup_failed")
		}
		worker.at = 0
		barriers := int64(0)
		steps, sawQueued, sawDrain, sawLapOrSync := 0, false, false, false
		snapshot := func(obs *toks) {
			h, tl, ws, _ := c.VerifRingState(0)
			dfree, _, wtok, stok, closed := c.VerifLockState(0)
			obs.I(int64(h), int64(tl), int64(ws)).B(wtok).B(stok).B(closed).B(dfree)
		}
		for steps < 2500 {
			h, tl, _, _ := c.VerifRingState(0)
			dfree, _, wtok, stok, closed := c.VerifLockState(0)
			acked := kioshun.VerifAcksSent() - acks0
			if h != tl {
				sawQueued = true
			}
			if h-tl >= uint64(ring) {
				sawLapOrSync = true
			}
			var enabled []*qcThread
			for _, th := range ths {
				if th.finished || (th.at == 0 && th.left == 0) {
					continue
				}
				switch th.at {
				case 108:
					if !stok && !closed {
						continue
					}
				case 301:
					if !wtok && !closed {
						continue
					}
				case 311, 331:
					if !dfree {
						continue
					}
				case 340:
					if acked < th.ackOrd && !closed {
						continue
					}
				case 341:
					if !worker.finished {
						continue
					}
				}
				enabled = append(enabled, th)
			}
			if len(enabled) == 0 {
				// nobody can move: every thread must be finished or idle, and nothing may be left in the ring
				stuck := ""
				for _, th := range ths {
					if !th.finished && !(th.at == 0 && th.left == 0) && !(th.kind == 15 && th.at == 301) {
						stuck += fmt.Sprintf(" thread %d (kind %d) at %d", th.tid, th.kind, th.at)
					}
				}
				if stuck != "" {
					for _, prop := range []string{"C07", "C08"} {
						m.violate(prop, fmt.Sprintf("%s: after %d steps no thread is enabled but these never finished:%s (head %d tail %d wake %v space %v closed %v drainFree %v acks %d)", ctx, steps, stuck, h, tl, wtok, stok, closed, dfree, acked), ctx)
					}
				}
				if h != tl && !closed {
					for _, prop := range []string{"C04", "C07"} {
						m.violate(prop, fmt.Sprintf("%s: after %d steps every thread is idle, the worker waits for a wake token that will never come, yet the ring holds accepted writes (head %d tail %d): lost wake-up", ctx, steps, h, tl), ctx)
					}
				}
				break
			}
			th := pick(r, enabled)
			both := false
			switch th.at {
			case 108:
				both = stok && closed
			case 301:
				both = wtok && closed
			case 340:
				both = acked >= th.ackOrd && closed && th.kind == 13
			}
			was := th.at
			p := qcStep(th.sid)
			steps++
			choice := int64(0)
			obs := &toks{}
			switch {
			case p == kioshun.VerifStepBlocked || p == kioshun.VerifStepUnknown:
				for _, prop := range []string{"C04", "C07", "C08"} {
					m.violate(prop, fmt.Sprintf("%s: thread %d (kind %d) parked at %d was enabled according to the real lock/channel state but did not reach a yield point within 3 s", ctx, th.tid, th.kind, was), ctx)
				}
				obs.I(-2)
				th.finished = true
			case p == kioshun.VerifStepDone:
				th.finished = true
				obs.I(-1, 0, 0)
				if both && was == 301 {
					choice = 1
				}
			case p == 0:
				th.left--
				th.inBarrier = false
				obs.I(0, th.res.r1, th.res.r2)
				if both && th.res.r1 == 3 {
					choice = 1
				}
			default:
				obs.I(int64(p), 0, 0)
				if both && was == 301 && p == 308 {
					choice = 1
				}
				if was == 103 && p == 104 && (th.kind == 13 || th.kind == 14) {
					barriers++
					th.ackOrd = barriers
				}
				if th.kind == 13 && p == 340 {
					sawLapOrSync = true
				}
				if th.kind == 15 && p == 312 {
					sawDrain = true
				}
			}
			if p > 0 {
				th.at = p
			} else if p == 0 {
				th.at = 0
			}
			snapshot(obs)
			w.O(ints(2, int64(th.tid), choice), obs)
		}
		m.countN("schedule_steps", int64(steps))
		if !hasClose {
			// every thread is done or idle: all accepted writes are applied
			v, ok := c.Get(7)
			if !ok {
				v = 0
			}
			w.O(ints(3), ints(int64(v)))
		}
		// uncompared shutdown: let everything run freely and close
		kioshun.VerifSchedRelease()
		c.Close()
		time.Sleep(200 * time.Microsecond)
		kioshun.VerifSchedReset(false, 0)
		unwatch()
		if sawQueued && sawDrain && sawLapOrSync {
			m.nontrivial(fmt.Sprintf("ring%d/b%d/p%d/s%v/c%v", ring, conf.WriteBatchSize, np, hasSync, hasClose))
		}
		if t < 3 {
			m.sample(fmt.Sprintf("%s: %d threads, %d steps", ctx, len(ths), steps))
		}
	}
	w.Close()
	m.Traces, m.Ops = w.traces, w.ops
	m.write(o.out)
}

// ---------------------------------------------------------------------------------------------
// "nl": T-lockstep for the delivery of removal notifications (C06). The removal notifier goroutine of a real cache
// is adopted by the scheduler and stepped from yield point to yield point (select, per-shard flag load, lock,
// each listener call); the harness stages removals with synchronous Deletes and, once per trace, runs Close in a
// scheduled thread up to its broadcast. After every step the notifier's position and the shared state (wake
// token, closeCh, per-shard pending flag and buffer length, number of deliveries and the last delivered value)
// are compared with NotifierLts.

const sidNl = 61

func streamNl(o opts) {
	r := newRand(o.seed, "nl")
	m := newMeta("nl", o.seed)
	m.Rule = "2-4 shard real cache with an OnRemove listener; random schedules of: a synchronous Delete of a resident key (stages one removal), one step of the adopted notifier goroutine (only when enabled: a wake token or closeCh at its select), and once per trace Close run to its broadcast; after every step the notifier's yield point and (wake token, closeCh, pending flags, buffer lengths, deliveries, last delivered value) are compared with NotifierLts; at the end every staged removal must have been delivered exactly once unless it was staged after the final drain visited its shard; non-trivial = trace with coalesced signals and a final drain that delivers; distinct by (shards, close position)"
	w := newTraceWriter(o.out, "nl")
	for t := 0; t < o.n; t++ {
		nsh := pick(r, []int{2, 2, 4})
		ctx := fmt.Sprintf("nl trace %d shards %d", t, nsh)
		watch(ctx)
		var mu sync.Mutex
		var deliv []int
		kioshun.VerifSchedReset(true, 3*time.Second)
		kioshun.VerifSchedAdoptNotifier(true)
		c, err := kioshun.New[int, int](kioshun.Config{ShardCount: nsh, EvictionPolicy: kioshun.LRU, MaxSize: 4096},
			kioshun.WithOnRemove(func(k, v int, reason kioshun.RemovalReason) { mu.Lock(); deliv = append(deliv, v); mu.Unlock() }))
		must(err)
		for i := 0; i < 5000 && !kioshun.VerifSchedKnown(2000); i++ {
			time.Sleep(100 * time.Microsecond)
		}
		kioshun.VerifSchedAdoptNotifier(false)
		if !kioshun.VerifSchedKnown(2000) || kioshun.VerifSchedStep(2000) != 0 || kioshun.VerifSchedStep(2000) != 501 {
			m.count("nl_setup_failed")
			kioshun.VerifSchedRelease()
			c.Close()
			unwatch()
			continue
		}
		nshReal := c.VerifShards()
		w.T(sidNl, ints(int64(nshReal)))
		// resident keys, by shard
		keys := []int{}
		for k := 1; k <= 40; k++ {
			c.Set(k, 1000+k, kioshun.NoExpiration)
			keys = append(keys, k)
		}
		snapshot := func(obs *toks) {
			wake, pend, staged := c.VerifNotifierState()
			_, _, _, _, closed := c.VerifLockState(0)
			obs.B(wake).B(closed)
			for _, p := range pend {
				obs.B(p)
			}
			for _, n := range staged {
				obs.I(int64(n))
			}
			mu.Lock()
			last := 0
			if len(deliv) > 0 {
				last = deliv[len(deliv)-1]
			}
			obs.I(int64(len(deliv)), int64(last))
			mu.Unlock()
		}
		at := 501
		exited, closeStarted, closeDone := false, false, false
		closeAt := 5 + r.Intn(40)
		stagedN, coalesced, finalDelivered := 0, false, false
		var stagedVals []int
		lastKey, nextVal := 0, 5000
		for step := 0; step < 200; step++ {
			wake, _, _ := c.VerifNotifierState()
			_, _, _, _, closed := c.VerifLockState(0)
			var choices []int // 1 stage, 2 notifier, 3 close
			if len(keys) > 0 && !closed {
				choices = append(choices, 1, 1)
			}
			if !exited && (at != 501 || wake || closed) {
				choices = append(choices, 2, 2, 2)
			}
			if !closeStarted && step >= closeAt {
				choices = append(choices, 3)
			}
			if len(choices) == 0 {
				break
			}
			switch pick(r, choices) {
			case 1:
				var k, val int
				if lastKey != 0 && r.Intn(3) == 0 {
					// the key deleted last is written again and deleted again: two adjacent departures of ONE key
					k = lastKey
					nextVal++
					val = nextVal
					c.Set(k, val, kioshun.NoExpiration)
				} else {
					i := r.Intn(len(keys))
					k = keys[i]
					keys = append(keys[:i], keys[i+1:]...)
					val = 1000 + k
				}
				lastKey = k
				wasWake, _, _ := c.VerifNotifierState()
				c.Delete(k)
				if wasWake {
					coalesced = true
				}
				stagedN++
				stagedVals = append(stagedVals, val)
				obs := &toks{}
				snapshot(obs)
				w.O(ints(1, int64(c.VerifShardIndex(k)), int64(val)), obs)
			case 2:
				before := len(deliv)
				both := at == 501 && wake && closed
				p := kioshun.VerifSchedStep(2000)
				choice := int64(0)
				if both {
					if stillWake, _, _ := c.VerifNotifierState(); stillWake {
						choice = 1 // the token is still there: Go took the closeCh case
					}
				}
				obs := &toks{}
				switch {
				case p == kioshun.VerifStepDone:
					exited = true
					obs.I(-1, 0)
				case p == kioshun.VerifStepBlocked || p == kioshun.VerifStepUnknown:
					m.violate("C06", fmt.Sprintf("%s: the notifier, parked at %d with wake=%v closed=%v, did not reach its next yield point within 3 s", ctx, at, wake, closed), ctx)
					obs.I(-2)
					exited = true
				default:
					obs.I(int64(p), 0)
					at = p
				}
				if closed && len(deliv) > before {
					finalDelivered = true
				}
				snapshot(obs)
				w.O(ints(2, choice), obs)
			case 3:
				closeStarted = true
				kioshun.VerifSchedSpawn(7, func() { c.Close(); closeDone = true })
				if q := stepUntil(7, 341); q != 341 {
					m.violate("C08", fmt.Sprintf("%s: Close did not reach its broadcast (stopped at %d)", ctx, q), ctx)
				}
				obs := &toks{}
				snapshot(obs)
				w.O(ints(3), obs)
			}
		}
		// uncompared shutdown
		kioshun.VerifSchedRelease()
		c.Close()
		_ = closeDone
		time.Sleep(300 * time.Microsecond)
		kioshun.VerifSchedReset(false, 0)
		unwatch()
		mu.Lock()
		seen := map[int]int{}
		for _, v := range deliv {
			seen[v]++
		}
		for _, v := range stagedVals {
			if seen[v] != 1 {
				m.violate("C06", fmt.Sprintf("%s: the entry holding v%d was deleted before Close began and was reported %d times", ctx, v, seen[v]), ctx)
				break
			}
		}
		mu.Unlock()
		if coalesced && finalDelivered {
			m.nontrivial(fmt.Sprintf("s%d/c%d", nshReal, closeAt/10))
		}
		if t < 2 {
			m.sample(fmt.Sprintf("%s: %d removals staged", ctx, stagedN))
		}
	}
	w.Close()
	m.Traces, m.Ops = w.traces, w.ops
	m.write(o.out)
}
