//go:build verif

package main

import (
	"fmt"
	"reflect"
	"runtime"
	"sync"
	"time"

	kioshun "github.com/unkn0wn-root/kioshun"
)

// Stream "rgl" (sid 171): T-lockstep of the real Manager against RegistryLts. Every caller (GetCache,
// GetCacheWithConfig, Register, RegisterCache, Remove, CloseAll over 3 names x 3 type-parameter pairs, valid and
// invalid configurations) is a thread of the cooperative scheduler, parked at the yield points placed in manager.go
// between its shared accesses (sync.Map operations, the registration lock, Close of an instance). A random schedule
// interleaves them; callers are also spawned in the middle of a schedule. After EVERY step the yield point reached (or
// the call's result, instances numbered by first appearance) and the visible registry state (instance stored under
// each name, registrations with their pinned type, state of the registration lock, closed flag of every instance seen
// so far) are compared with the extracted LTS stepping the same thread. A step that would block on the registration
// lock is never scheduled (enabledness is computed from the real lock state and confirmed by the model, which
// answers -3 for a disabled step).
const sidRgl = 171

type rglThread struct {
	id    int
	kind  int // 1 register 2 get 3 getcfg 4 remove 5 closeall
	at    int // yield point parked at (0 = before the first shared access)
	done  bool
	err   error
	inst  any
	start map[string]any
}

func rglTypeCode(t reflect.Type) int64 {
	switch t {
	case nil:
		return 1
	case reflect.TypeFor[*kioshun.Cache[string, int]]():
		return 3
	case reflect.TypeFor[*kioshun.Cache[int, int]]():
		return 4
	case reflect.TypeFor[*kioshun.Cache[string, string]]():
		return 5
	}
	return 9
}

func streamRgl(o opts) {
	r := newRand(o.seed, "rgl")
	m := newMeta("rgl", o.seed)
	m.Rule = "3-8 concurrent callers of the real Manager per trace under the cooperative scheduler, random schedules over the yield points in manager.go, callers spawned mid-schedule; every step's yield point / result and the registry state compared with RegistryLts; end-of-trace monitors: no deadlock, goroutines back to the baseline after CloseAll; non-trivial = schedule in which a creation race was lost or a Remove/CloseAll overlapped a creation; distinct by (callers, kinds, lost race, overlap)"
	w := newTraceWriter(o.out, "rgl")
	good := kioshun.Config{MaxSize: 16, ShardCount: 2, EvictionPolicy: kioshun.LRU}
	bad := kioshun.Config{MaxSize: -1}
	names := []string{"a", "b", "c"}
	nameIdx := map[string]int{"a": 0, "b": 1, "c": 2}
	kioshun.VerifSchedAdoptWorkers(false)
	kioshun.VerifSchedAdoptNotifier(false)
	watch("rgl warm-up")
	unwatch()
	time.Sleep(5 * time.Millisecond)
	for t := 0; t < o.n; t++ {
		runtime.GC()
		base := runtime.NumGoroutine()
		mg := kioshun.NewManager()
		w.T(sidRgl, &toks{})
		watch(fmt.Sprintf("rgl trace %d", t))
		kioshun.VerifSchedReset(true, 2*time.Second)
		var threads []*rglThread
		var mu sync.Mutex
		var wg sync.WaitGroup
		ids := map[any]int64{}
		var seen []any
		number := func(c any) int64 {
			if id, ok := ids[c]; ok {
				return id
			}
			seen = append(seen, c)
			ids[c] = int64(len(seen))
			return ids[c]
		}
		var log []string
		total := 3 + r.Intn(6)
		hot := r.Intn(3) // most calls target one name so that they collide
		regFirstTy := 1
		spawn := func() {
			id := len(threads)
			th := &rglThread{id: id}
			ni := hot
			if r.Intn(4) == 0 {
				ni = r.Intn(3)
			}
			name := names[ni]
			ty := 1 + r.Intn(3)
			if r.Intn(3) != 0 {
				ty = 1 + r.Intn(2)
			}
			valid := r.Intn(10) != 0
			cfg := good
			if !valid {
				cfg = bad
			}
			var op *toks
			var fn func()
			c := r.Intn(100)
			if t%5 == 2 { // typed-registration flavour: one RegisterCache completes first, then GetCache callers of that type race the first creation
				ni, name, valid, cfg = hot, names[hot], true, good
				if id == 0 {
					c = 0
				} else if r.Intn(5) != 0 {
					c, ty = 20, regFirstTy
				}
			}
			if t%3 == 1 && t%5 != 2 { // teardown-heavy flavour: CloseAll / Remove racing re-creation of one name
				ni, name, valid, cfg = hot, names[hot], true, good
				ty = 1
				switch x := r.Intn(100); {
				case x < 30:
					c = 95
				case x < 45:
					c = 80
				case x < 90:
					c = 50
				default:
					c = 20
				}
			}
			switch {
			case c < 15:
				rt := r.Intn(4)
				if t%5 == 2 && id == 0 {
					rt = 1 + r.Intn(3)
					regFirstTy = rt
				}
				th.kind = 1
				op = ints(10, 1, int64(ni), int64(rt)).B(valid)
				fn = func() { th.err = regRegister(mg, name, rt, cfg) }
			case c < 40:
				th.kind = 2
				op = ints(10, 2, int64(ni), int64(ty))
				fn = func() { th.inst, th.err = regGet(mg, name, ty) }
			case c < 75:
				th.kind = 3
				op = ints(10, 3, int64(ni), int64(ty)).B(valid)
				fn = func() { th.inst, th.err = regGetCfg(mg, name, ty, cfg) }
			case c < 90:
				th.kind = 4
				op = ints(10, 4, int64(ni))
				fn = func() { th.err = mg.Remove(name) }
			default:
				th.kind = 5
				op = ints(10, 5)
				fn = func() { th.err = mg.CloseAll() }
			}
			threads = append(threads, th)
			wg.Add(1)
			kioshun.VerifSchedSpawn(id, func() {
				defer wg.Done()
				defer func() {
					if p := recover(); p != nil {
						mu.Lock()
						m.violate("C17", fmt.Sprintf("rgl trace %d: panic inside a Manager call under the scheduler: %v (calls %v)", t, p, log), fmt.Sprint(t))
						mu.Unlock()
					}
				}()
				fn()
			})
			w.O(op, ints(int64(id), 0))
			log = append(log, fmt.Sprintf("spawn%d%v", id, *op))
			m.count(fmt.Sprintf("kind%d", th.kind))
		}
		for i, n := 0, 2+r.Intn(2); i < n; i++ {
			spawn()
			if t%5 == 2 {
				break
			}
		}
		lostRace, overlap := false, false
		steps := 0
		for steps < 600 {
			regPending := t%5 == 2 && !threads[0].done
			if len(threads) < total && !regPending && (r.Intn(6) == 0 || (t%5 == 2 && len(threads) < 3)) {
				spawn()
				continue
			}
			_, _, lock := mg.VerifState()
			var enabled []*rglThread
			live := 0
			for _, th := range threads {
				if th.done {
					continue
				}
				live++
				switch {
				case th.at == 411 && lock == 2:
				case th.at == 421 && lock != 0:
				case th.at == 0 && th.kind == 4 && lock != 0:
				default:
					enabled = append(enabled, th)
				}
			}
			if live == 0 {
				if len(threads) < total {
					spawn()
					continue
				}
				break
			}
			if len(enabled) == 0 {
				m.violate("C17", fmt.Sprintf("rgl trace %d: every unfinished Manager call is blocked on the registration lock (deadlock) after %v", t, log), fmt.Sprint(t))
				m.violate("C07", fmt.Sprintf("rgl trace %d: every unfinished Manager call is blocked on the registration lock (deadlock) after %v", t, log), fmt.Sprint(t))
				break
			}
			th := pick(r, enabled)
			if th.kind == 5 && th.at == 0 && th.start == nil {
				th.start, _, _ = mg.VerifState() // what is registered when this CloseAll begins
			}
			p := kioshun.VerifSchedStep(th.id)
			for p > 0 && p != 401 && (p < 411 || p > 440) { // yield points inside the cache (Close): not the registry's
				p = kioshun.VerifSchedStep(th.id)
			}
			steps++
			hint := int64(0)
			obs := &toks{}
			switch {
			case p == kioshun.VerifStepDone:
				th.done = true
				id := int64(0)
				if th.err == nil && th.inst != nil {
					id = number(th.inst)
				}
				obs.I(-1, regErr(th.err), id)
				if th.kind == 5 {
					// an instance registered when CloseAll began and still registered when it returns was registered
					// throughout (a removed instance is closed and never stored again): Range must have visited it
					now, _, _ := mg.VerifState()
					for n, inst := range th.start {
						if cur, ok := now[n]; ok && cur == inst {
							m.violate("C17", fmt.Sprintf("rgl trace %d: CloseAll (call %d) returned although the instance registered under %q during its whole run is still registered (closed=%v): CloseAll closes every instance (schedule %v)", t, th.id, n, isClosedCache(inst), log), fmt.Sprint(t))
						}
					}
				}
			case p > 0:
				th.at = p
				m.count(fmt.Sprintf("pt%d", p))
				if p == 440 {
					hint = int64(nameIdx[kioshun.VerifSchedNote(th.id)]) + 1
				}
				if p == 416 {
					lostRace = true
				}
				obs.I(int64(p))
			default:
				obs.I(int64(p))
				th.done = true
				m.violate("C07", fmt.Sprintf("rgl trace %d: Manager call %d did not reach its next yield point within 2 s although no lock it needs is held (after %v)", t, th.id, log), fmt.Sprint(t))
			}
			// visible state
			cs, regs, lk := mg.VerifState()
			closerStarted := false
			for _, x := range threads {
				if (x.kind == 4 || x.kind == 5) && (x.at != 0 || x.done) {
					closerStarted = true
				}
			}
			for _, n := range names {
				if c, ok := cs[n]; ok {
					if !closerStarted && isClosedCache(c) {
						m.violate("C17", fmt.Sprintf("rgl trace %d: the instance registered under %q is closed although no Remove or CloseAll has started: callers of this name receive a dead cache (schedule %v t%d@%d)", t, n, log, th.id, p), fmt.Sprint(t))
					}
					obs.I(number(c))
				} else {
					obs.I(0)
				}
			}
			for _, n := range names {
				if ty, ok := regs[n]; ok {
					obs.I(rglTypeCode(ty))
				} else {
					obs.I(0)
				}
			}
			obs.I(int64(lk))
			for _, c := range seen {
				obs.B(isClosedCache(c))
			}
			w.O(ints(11, int64(th.id), hint), obs)
			log = append(log, fmt.Sprintf("t%d@%d", th.id, p))
			if (th.kind == 4 || th.kind == 5) && p > 0 {
				for _, x := range threads {
					if !x.done && x.at >= 414 && x.at <= 416 {
						overlap = true
					}
				}
			}
		}
		// release whatever is still parked and wait for every call to return
		kioshun.VerifSchedRelease()
		waitDone := make(chan struct{})
		go func() { wg.Wait(); close(waitDone) }()
		select {
		case <-waitDone:
		case <-time.After(10 * time.Second):
			m.violate("C07", fmt.Sprintf("rgl trace %d: Manager calls did not return within 10 s after the scheduler released them (schedule %v)", t, log), fmt.Sprint(t))
		}
		kioshun.VerifSchedReset(false, 0)
		unwatch()
		mg.CloseAll()
		deadline := time.Now().Add(3 * time.Second)
		for runtime.NumGoroutine() > base && time.Now().Before(deadline) {
			time.Sleep(2 * time.Millisecond)
		}
		if n := runtime.NumGoroutine(); n > base {
			m.violate("C17", fmt.Sprintf("rgl trace %d: %d goroutines above the baseline 3 s after every call returned and CloseAll ran: a cache instance was leaked by the schedule %v", t, n-base, log), fmt.Sprint(t))
			m.violate("C08", fmt.Sprintf("rgl trace %d: %d goroutines above the baseline 3 s after every call returned and CloseAll ran (schedule %v)", t, n-base, log), fmt.Sprint(t))
		}
		m.countN("schedule_steps", int64(steps))
		if lostRace || overlap {
			m.nontrivial(fmt.Sprintf("c%d-l%v-o%v-%d", len(threads), lostRace, overlap, steps/8))
		}
		if t < 3 {
			m.sample(fmt.Sprintf("rgl trace %d: %d callers, %d steps: %v", t, len(threads), steps, log))
		}
	}
	w.Close()
	m.Traces, m.Ops = w.traces, w.ops
	m.write(o.out)
}
