//go:build verif

package main

import (
	"fmt"
	"math/rand"

	"github.com/unkn0wn-root/kioshun"
)

// Streams "est" and "ghost" (C19): the real doorkeeper+sketch and ghost ring driven
// through the verif wrappers, compared with EstimatorModel / GhostModel, with the
// property's own monitors (exact counters; reference FIFO window).

const (
	sidEst   = 19
	sidGhost = 191
)

func estDomain(r *rand.Rand, words int) []uint64 {
	d := []uint64{0, 1, ^uint64(0), 1 << 63, 0xdeadbeef}
	for i := 0; i < 10; i++ {
		d = append(d, r.Uint64())
	}
	for i := 0; i < 6; i++ {
		d = append(d, uint64(r.Intn(50)))
	}
	// fingerprints whose avalanche shares block and some row offsets with d[5]: search a little
	base := kioshun.VerifAvalanche(d[5])
	bm := uint64(words/8 - 1)
	for tries, found := 0, 0; tries < 200000 && found < 3; tries++ {
		x := r.Uint64()
		av := kioshun.VerifAvalanche(x)
		if av&bm == base&bm && (av>>21)&127 == (base>>21)&127 {
			d = append(d, x)
			found++
		}
	}
	return d
}

func streamEst(o opts) {
	r := newRand(o.seed, "est")
	m := newMeta("est", o.seed)
	m.Rule = "traces over a fingerprint domain (0, 2^64-1, random, small ints, fingerprints sharing a sketch block and row offset); ops record/estimate/tick bursts/clear; capacities 1..5000 (sketch 64..4096 words); non-trivial = trace with a saturated counter or an aging event, distinct by (capacity, saturations>0, agings)"
	w := newTraceWriter(o.out, "est")
	caps := []int64{1, 50, 102, 103, 205, 1000, 2000, 5000}
	for t := 0; t < o.n; t++ {
		capacity := pick(r, caps)
		e := kioshun.NewVerifEstimator(capacity)
		words, dwords := e.Sizes()
		w.T(sidEst, ints(int64(words), int64(dwords)))
		dom := estDomain(r, words)
		hot := dom[:3+r.Intn(4)]
		count := map[uint64]int{}
		nops := 150 + r.Intn(250)
		agings, sats := 0, 0
		_, resetAt := e.Samples()
		if t%5 == 4 && capacity <= 205 {
			// dense directed trace: many keys recorded a few times each so that neighbouring
			// counter cells are populated, then one aging event, then every key is checked.
			m.count("dense_trace")
			keys := make([]uint64, 300)
			for i := range keys {
				keys[i] = r.Uint64()
				for n := 2 + r.Intn(8); n > 0; n-- {
					s0, _ := e.Samples()
					e.Record(keys[i])
					s1, _ := e.Samples()
					w.O((&toks{}).I(1).U(keys[i]), (&toks{}).B(s1 < s0+1).I(int64(s1)))
				}
			}
			sk := map[uint64]int{}
			for _, x := range keys {
				sk[x] = e.SketchPart(x)
			}
			s0, _ := e.Samples()
			n := resetAt - s0
			for j := uint64(0); j < n; j++ {
				e.Tick()
			}
			s1, _ := e.Samples()
			w.O(ints(6, int64(n)), ints(1, int64(s1)))
			bad := 0
			for _, x := range keys {
				got := e.SketchPart(x)
				w.O((&toks{}).I(3).U(x), (&toks{}).I(int64(e.Estimate(x)), int64(got)).B(e.DoorHas(x)))
				if got != sk[x]/2 || e.DoorHas(x) {
					bad++
					if bad == 1 {
						m.violate("C19", fmt.Sprintf("aging (dense sketch, capacity %d): fingerprint %d counted part %d -> %d, want %d", capacity, x, sk[x], got, sk[x]/2), "est trace "+fmt.Sprint(t))
					}
				}
			}
			agings++
			nops = 20
		}
		wantAging := r.Intn(3) == 0 && capacity <= 205 // aging needs 10x counters ticks; keep it to the small sketches
		checkAll := func(ctx string) {
			for _, h := range dom {
				est := e.Estimate(h)
				c := count[h]
				if c > 15 {
					c = 15
				}
				if est < c || est > 15 {
					m.violate("C19", fmt.Sprintf("estimate(%d)=%d but recorded %d times since last aging (%s, capacity %d)", h, est, count[h], ctx, capacity), "est trace "+fmt.Sprint(t))
				}
			}
		}
		// the harness's own count of observations since the last aging event or clear: an aging event is due exactly
		// when it reaches the period, never earlier (estimates are only allowed to drop at a period boundary)
		mine, _ := e.Samples()
		early := func(what string) {
			if mine+1 < resetAt {
				m.violate("C19", fmt.Sprintf("aging event after only %d observations since the last aging / clear (%s, period %d, capacity %d): estimates were halved inside an aging period", mine+1, what, resetAt, capacity), "est trace "+fmt.Sprint(t))
			}
		}
		for i := 0; i < nops; i++ {
			switch k := r.Intn(100); {
			case k < 55: // record
				h := pick(r, dom)
				if r.Intn(3) > 0 {
					h = pick(r, hot)
				}
				before := map[uint64]int{}
				for _, x := range dom {
					before[x] = e.Estimate(x)
				}
				s0, _ := e.Samples()
				e.Record(h)
				s1, _ := e.Samples()
				aged := s1 < s0+1
				if aged {
					early("a record")
					mine = 0
					agings++
					count = map[uint64]int{}
				} else {
					mine++
					count[h]++
					for _, x := range dom {
						if after := e.Estimate(x); after < before[x] {
							m.violate("C19", fmt.Sprintf("recording %d lowered estimate(%d) from %d to %d", h, x, before[x], after), "est trace "+fmt.Sprint(t))
						}
					}
				}
				if e.Estimate(h) == 15 {
					sats++
				}
				w.O((&toks{}).I(1).U(h), (&toks{}).B(aged).I(int64(s1)))
				checkAll("after record")
				m.count("record")
			case k < 85: // estimate
				h := pick(r, dom)
				w.O((&toks{}).I(3).U(h), (&toks{}).I(int64(e.Estimate(h)), int64(e.SketchPart(h))).B(e.DoorHas(h)))
				m.count("estimate")
			case k < 88:
				h := pick(r, dom)
				w.O((&toks{}).I(5).U(h), (&toks{}).U(kioshun.VerifAvalanche(h)))
				m.count("avalanche")
			case k < 90:
				e.Clear()
				count = map[uint64]int{}
				mine = 0
				w.O(ints(4), &toks{})
				m.count("clear")
			default: // tick burst; sometimes drive to the aging point
				s0, _ := e.Samples()
				n := uint64(1 + r.Intn(40))
				if wantAging && resetAt > s0 {
					d := int64(resetAt-s0) - int64(r.Intn(3))
					if d < 1 {
						d = 1
					}
					n = uint64(d)
				}
				sk := map[uint64]int{}
				for _, x := range dom {
					sk[x] = e.SketchPart(x)
				}
				ag := int64(0)
				for j := uint64(0); j < n; j++ {
					a, _ := e.Samples()
					e.Tick()
					b, _ := e.Samples()
					if b < a+1 {
						early("a tick")
						mine = 0
						ag++
					} else {
						mine++
					}
				}
				if ag > 0 {
					agings += int(ag)
					count = map[uint64]int{}
					if ag == 1 {
						for _, x := range dom {
							if got := e.SketchPart(x); got != sk[x]/2 || e.DoorHas(x) || e.Estimate(x) != sk[x]/2 {
								m.violate("C19", fmt.Sprintf("aging: fingerprint %d counted part %d -> %d (want %d), first-touch mark %v", x, sk[x], got, sk[x]/2, e.DoorHas(x)), "est trace "+fmt.Sprint(t))
							}
						}
					}
				}
				s1, _ := e.Samples()
				w.O(ints(6, int64(n)), ints(ag, int64(s1)))
				m.count("tick_burst")
			}
		}
		if agings > 0 || sats > 0 {
			m.nontrivial(fmt.Sprintf("c%d/s%v/a%d", capacity, sats > 0, agings))
		}
		m.countN("aging_events", int64(agings))
		m.countN("saturated_reads", int64(sats))
		if t < 3 {
			m.sample(fmt.Sprintf("capacity=%d words=%d ops=%d agings=%d saturated=%d", capacity, words, nops, agings, sats))
		}
	}
	w.Close()
	m.Traces, m.Ops = w.traces, w.ops
	m.write(o.out)
}

// refGhost is the property's own statement: members are the fingerprints of the last n
// accepted adds that were not removed since.
type refGhost struct {
	n   int
	acc []struct {
		h       uint64
		removed bool
	}
}

func (g *refGhost) window() []int {
	lo := len(g.acc) - g.n
	if lo < 0 {
		lo = 0
	}
	idx := []int{}
	for i := lo; i < len(g.acc); i++ {
		idx = append(idx, i)
	}
	return idx
}
func (g *refGhost) find(h uint64) int {
	for _, i := range g.window() {
		if !g.acc[i].removed && g.acc[i].h == h {
			return i
		}
	}
	return -1
}
func (g *refGhost) add(h uint64) {
	if g.n == 0 || g.find(h) >= 0 {
		return
	}
	g.acc = append(g.acc, struct {
		h       uint64
		removed bool
	}{h, false})
}
func (g *refGhost) remove(h uint64) bool {
	if i := g.find(h); i >= 0 {
		g.acc[i].removed = true
		return true
	}
	return false
}
func (g *refGhost) count() int {
	c := 0
	for _, i := range g.window() {
		if !g.acc[i].removed {
			c++
		}
	}
	return c
}

func streamGhost(o opts) {
	r := newRand(o.seed, "ghost")
	m := newMeta("ghost", o.seed)
	m.Rule = "add/remove/contains/clear sequences on ghost rings of capacity {0,1,2,3,4,7,8,9,64}, fingerprints from a domain of 2..3x capacity including 0 and colliding probe starts; every third 64-ring trace uses 56 fingerprints sharing one home slot (probe clusters longer than 32); rings of 65535, 65536 and 65536+k entries are checked against the most-recent-N rule (monitor only); non-trivial = trace in which the ring wrapped and a removal left a hole; distinct by (capacity, wraps>0, holes>0, cleared)"
	w := newTraceWriter(o.out, "ghost")
	caps := []int{0, 1, 2, 3, 4, 7, 8, 9, 64}
	for t := 0; t < o.n; t++ {
		n := pick(r, caps)
		g := kioshun.NewVerifGhost(n)
		ring, slots := g.Sizes()
		w.T(sidGhost, ints(int64(ring), int64(slots)))
		ref := &refGhost{n: n}
		dom := []uint64{0, 1, ^uint64(0)}
		for i := 0; i < 2*n+3; i++ {
			if r.Intn(2) == 0 {
				dom = append(dom, uint64(r.Intn(3*n+4)))
			} else {
				dom = append(dom, r.Uint64())
			}
		}
		// a long probe cluster: dozens of live fingerprints sharing fingerprint 0's home slot
		if n >= 64 && t%3 == 0 {
			base := kioshun.VerifAvalanche(0) & uint64(slots-1)
			dom = []uint64{0}
			for tries := 0; tries < 400000 && len(dom) < 56; tries++ {
				x := r.Uint64()
				if kioshun.VerifAvalanche(x)&uint64(slots-1) == base {
					dom = append(dom, x)
				}
			}
			m.count("long_cluster_traces")
		}
		// colliding probe starts
		if slots > 0 {
			base := kioshun.VerifAvalanche(dom[len(dom)-1]) & uint64(slots-1)
			for tries, found := 0, 0; tries < 5000 && found < 3; tries++ {
				x := r.Uint64()
				if kioshun.VerifAvalanche(x)&uint64(slots-1) == base {
					dom = append(dom, x)
					found++
				}
			}
		}
		nops := 60 + r.Intn(200)
		adds, holes, cleared := 0, 0, false
		for i := 0; i < nops; i++ {
			h := pick(r, dom)
			switch k := r.Intn(100); {
			case k < 50:
				g.Add(h)
				ref.add(h)
				adds++
				w.O((&toks{}).I(1).U(h), ints(int64(g.Count()), 0))
				m.count("add")
			case k < 70:
				ok := g.Remove(h)
				if ok != ref.remove(h) {
					m.violate("C19", fmt.Sprintf("ghost(cap %d).remove(%d)=%v disagrees with FIFO-window reference", n, h, ok), "ghost trace "+fmt.Sprint(t))
				}
				if ok {
					holes++
				}
				w.O((&toks{}).I(2).U(h), (&toks{}).B(ok).I(int64(g.Count()), 0))
				m.count("remove")
			case k < 98:
				w.O((&toks{}).I(3).U(h), (&toks{}).B(g.Contains(h)).I(int64(g.Count())))
				m.count("contains")
			default:
				g.Clear()
				ref = &refGhost{n: n}
				cleared = true
				w.O(ints(4), ints(0))
				m.count("clear")
			}
			for _, x := range dom {
				if g.Contains(x) != (ref.find(x) >= 0) {
					m.violate("C19", fmt.Sprintf("ghost(cap %d): contains(%d)=%v but FIFO-window reference says %v after op %d", n, x, g.Contains(x), ref.find(x) >= 0, i), "ghost trace "+fmt.Sprint(t))
					break
				}
			}
			if g.Count() != ref.count() {
				m.violate("C19", fmt.Sprintf("ghost(cap %d): count %d, reference %d", n, g.Count(), ref.count()), "ghost trace "+fmt.Sprint(t))
			}
		}
		if n > 0 && adds > n && holes > 0 {
			m.nontrivial(fmt.Sprintf("n%d/%v", n, cleared))
		}
		if t < 3 {
			m.sample(fmt.Sprintf("capacity=%d slots=%d ops=%d adds=%d holes=%d", n, slots, nops, adds, holes))
		}
	}
	// rings larger than 2^16 entries (monitor only: the list model would take minutes): after cap+k distinct additions
	// exactly the most recent cap fingerprints are remembered
	if o.n >= 40 {
		for _, n := range []int{65535, 65536, 65536 + 1 + r.Intn(6000)} {
			g := kioshun.NewVerifGhost(n)
			total := n + 3000
			fp := func(i int) uint64 { return uint64(i)*0x9e3779b97f4a7c15 + 12345 }
			for i := 0; i < total; i++ {
				g.Add(fp(i))
			}
			bad := 0
			for i := 0; i < total && bad < 3; i++ {
				want := i >= total-n
				if i > 200 && i < total-n-200 && i%97 != 0 {
					continue // sample the middle of the forgotten range
				}
				if g.Contains(fp(i)) != want {
					bad++
					m.violate("C19", fmt.Sprintf("ghost(cap %d): after %d distinct additions contains(#%d)=%v, want %v (exactly the most recent %d are remembered)", n, total, i, !want, want, n), fmt.Sprintf("large ghost %d", n))
				}
			}
			if g.Count() != n {
				m.violate("C19", fmt.Sprintf("ghost(cap %d): count %d after %d distinct additions", n, g.Count(), total), fmt.Sprintf("large ghost %d", n))
			}
			m.count("large_ring_checks")
		}
	}
	w.Close()
	m.Traces, m.Ops = w.traces, w.ops
	m.write(o.out)
}
