module verifharness

go 1.24

require github.com/unkn0wn-root/kioshun v0.0.0

replace github.com/unkn0wn-root/kioshun => /repo
