//go:build !race

package main

const raceBuild = false
