//go:build verif

package main

import (
	"fmt"
	"net/http"
	"net/http/httptest"
	"reflect"
	"sort"
	"strconv"
	"time"
	"unsafe"

	"github.com/unkn0wn-root/kioshun/httpcache"
)

// Stream "al" (sid 91): the isolation clause of C14 against AliasModel.v. One miss per trace through the real
// middleware with a handler that keeps every slice it handed over, a policy that (optionally) keeps its arguments and
// a front that keeps every hit's ResponseWriter; afterwards random writes through all of those references are
// interleaved with hits. Every hit (status, X-K* headers, body) and the sharing report (does any retained reference
// point into the stored response: header arrays, body array, header map) are compared with the extracted model, and
// monitors report sharing or a changed hit with the operation sequence that produced it.
const sidAl = 91

type alRec struct {
	h    http.Header
	code int
	body []byte
}

func (r *alRec) Header() http.Header { return r.h }
func (r *alRec) WriteHeader(c int) {
	if r.code == 0 {
		r.code = c
	}
}
func (r *alRec) Write(b []byte) (int, error) {
	if r.code == 0 {
		r.code = 200
	}
	r.body = append(r.body, b...) // copies, like net/http
	return len(b), nil
}

func alKey(i int64) string { return "X-K" + strconv.FormatInt(i, 10) }
func alVal(v int64) string { return "v" + strconv.FormatInt(v, 10) }

func alOverlapS(a, b []string) bool {
	if len(a) == 0 || len(b) == 0 {
		return false
	}
	sz := unsafe.Sizeof("")
	a0 := uintptr(unsafe.Pointer(unsafe.SliceData(a)))
	b0 := uintptr(unsafe.Pointer(unsafe.SliceData(b)))
	return a0 < b0+uintptr(cap(b))*sz && b0 < a0+uintptr(cap(a))*sz
}
func alOverlapB(a, b []byte) bool {
	if cap(a) == 0 || cap(b) == 0 {
		return false
	}
	a0 := uintptr(unsafe.Pointer(unsafe.SliceData(a)))
	b0 := uintptr(unsafe.Pointer(unsafe.SliceData(b)))
	return a0 < b0+uintptr(cap(b)) && b0 < a0+uintptr(cap(a))
}

func streamAl(o opts) {
	r := newRand(o.seed, "al")
	m := newMeta("al", o.seed)
	m.Rule = "one miss through the real middleware per trace (handler keeping every header slice and body slice it handed over, optionally a policy keeping its header map and body arguments, IgnoreHeaders subsets), then random writes through every retained reference (handler's slices and header map, policy's map / slices / body, every earlier hit's ResponseWriter map and slices) interleaved with hits; each hit and the sharing report compared with AliasModel; non-trivial = trace with a retaining policy, a write through each kind of reference and two hits; distinct by (keys, ignored, retain, writes)"
	w := newTraceWriter(o.out, "al")
	for t := 0; t < o.n; t++ {
		var ign []int64
		var ignNames []string
		for k := int64(1); k <= 4; k++ {
			if r.Intn(4) == 0 {
				ign = append(ign, k)
				ignNames = append(ignNames, alKey(k))
			}
		}
		cfg := httpcache.DefaultConfig()
		cfg.IgnoreHeaders = ignNames
		mw, err := httpcache.New(cfg)
		must(err)
		mw.SetKeyGenerator(httpcache.KeyWithoutQuery())
		def := httpcache.DefaultCachePolicy(cfg)
		retain := r.Intn(3) != 0
		var polH http.Header
		var polB []byte
		mw.SetCachePolicy(func(req *http.Request, st int, h http.Header, body []byte) (bool, time.Duration) {
			polH, polB = h, body
			return def(req, st, h, body)
		})
		w.T(sidAl, ints(ign...))
		// adversary reference lists, in the model's order (newest first)
		var advArr []any // []string or []byte
		advMap := []http.Header{}
		var log []string
		emit := func(op *toks, obs *toks) {
			w.O(op, obs)
			log = append(log, fmt.Sprint(*op))
		}
		// the script
		type act struct {
			kind       int
			k, v1, v2  int64
			b1, b2, b3 int64
		}
		var script []act
		nset := 1 + r.Intn(5)
		val := int64(10)
		for i := 0; i < nset; i++ {
			val += 2
			script = append(script, act{kind: 1, k: 1 + int64(r.Intn(4)), v1: val, v2: val + 1})
		}
		if r.Intn(2) == 0 {
			at := r.Intn(len(script) + 1)
			script = append(script[:at], append([]act{{kind: 2}}, script[at:]...)...)
		}
		for i, nw := 0, 1+r.Intn(3); i < nw; i++ {
			wa := act{kind: 3, b1: int64(r.Intn(200)), b2: int64(r.Intn(200)), b3: int64(r.Intn(200))}
			if r.Intn(2) == 0 {
				wa.v1, wa.v2 = int64(1+r.Intn(3)), int64(200+r.Intn(50)) // position+1 and new byte of an immediate scratch reuse
			}
			script = append(script, wa)
		}
		path := fmt.Sprintf("/p%d", t)
		var wantBody []byte
		scratchReused := false
		missRec := &alRec{h: http.Header{}}
		advMap = append(advMap, missRec.h)
		handler := http.HandlerFunc(func(rw http.ResponseWriter, req *http.Request) {
			for _, a := range script {
				switch a.kind {
				case 1:
					vals := []string{alVal(a.v1), alVal(a.v2)}
					rw.Header()[alKey(a.k)] = vals
					advArr = append([]any{vals}, advArr...)
					emit(ints(1, a.k, a.v1, a.v2), ints(0))
				case 2:
					rw.WriteHeader(200)
					emit(ints(2, 200), ints(0))
				case 3:
					data := []byte{byte(a.b1), byte(a.b2), byte(a.b3)}
					rw.Write(data)
					wantBody = append(wantBody, data...)
					advArr = append([]any{data}, advArr...)
					emit(ints(3, a.b1, a.b2, a.b3), ints(0))
					if a.v1 != 0 {
						// the handler reuses its scratch slice right away (as io.Copy does between two Writes)
						data[a.v1-1] = byte(a.v2)
						emit(ints(5, 0, a.v1-1, a.v2), ints(0))
						scratchReused = true
					}
				}
			}
		})
		wrapped := mw.Wrap(handler)
		wrapped.ServeHTTP(missRec, httptest.NewRequest("GET", path, nil))
		key := "GET:" + path
		stored, _, ok := mw.VerifPeek(key)
		if !ok {
			m.violate("C13", fmt.Sprintf("al trace %d: a plain 200 response was not stored (script %v)", t, log), fmt.Sprint(t))
			mw.Close()
			continue
		}
		if retain {
			// the policy keeps its arguments: buffer bytes, then the header arrays in key order, then the map
			var add []any
			add = append(add, polB)
			for k := int64(1); k <= 4; k++ {
				if v, ok := polH[alKey(k)]; ok {
					add = append(add, v)
				}
			}
			advArr = append(add, advArr...)
			advMap = append([]http.Header{polH}, advMap...)
		}
		shares := func() (int64, int64, int64) {
			var s1, s2, s3 int64
			for _, sv := range stored.Headers {
				for _, a := range advArr {
					if as, ok := a.([]string); ok && alOverlapS(sv, as) {
						s1 = 1
					}
				}
			}
			for _, a := range advArr {
				if ab, ok := a.([]byte); ok && alOverlapB(stored.Body, ab) {
					s2 = 1
				}
			}
			sp := reflect.ValueOf(stored.Headers).Pointer()
			for _, am := range advMap {
				if reflect.ValueOf(am).Pointer() == sp {
					s3 = 1
				}
			}
			return s1, s2, s3
		}
		report := func(when string) (int64, int64, int64) {
			s1, s2, s3 := shares()
			if s1+s2+s3 != 0 {
				m.violate("C14", fmt.Sprintf("al trace %d (%s, ignored %v, retaining policy %v) after %v: the stored response shares memory with references held outside the middleware (header value arrays %d, body array %d, header map %d): a later write through them alters what hits receive", t, when, ign, retain, log, s1, s2, s3), fmt.Sprint(t))
			}
			return s1, s2, s3
		}
		{
			s1, s2, s3 := report("after the store")
			emit(ints(4).B(retain), ints(s1, s2, s3))
		}
		var firstHit string
		hits, wroteArr, wroteMap := 0, false, false
		for i, n := 0, 6+r.Intn(14); i < n; i++ {
			switch c := r.Intn(10); {
			case c < 4 && len(advArr) > 0:
				idx := r.Intn(len(advArr))
				pos := r.Intn(3)
				v := int64(500 + r.Intn(100))
				switch a := advArr[idx].(type) {
				case []string:
					if pos < len(a) {
						a[pos] = alVal(v)
					}
				case []byte:
					v = int64(r.Intn(200))
					if pos < len(a) {
						a[pos] = byte(v)
					}
				}
				emit(ints(5, int64(idx), int64(pos), v), ints(0))
				wroteArr = true
			case c < 6:
				idx := r.Intn(len(advMap))
				k := 1 + int64(r.Intn(4))
				if r.Intn(3) == 0 {
					delete(advMap[idx], alKey(k))
					emit(ints(7, int64(idx), k), ints(0))
				} else {
					v := int64(700 + r.Intn(100))
					vals := []string{alVal(v)}
					advMap[idx][alKey(k)] = vals
					advArr = append([]any{vals}, advArr...)
					emit(ints(6, int64(idx), k, v), ints(0))
				}
				wroteMap = true
			default:
				rec := &alRec{h: http.Header{}}
				wrapped.ServeHTTP(rec, httptest.NewRequest("GET", path, nil))
				obs := ints(int64(rec.code))
				var ks []int
				for k := 1; k <= 4; k++ {
					if _, ok := rec.h[alKey(int64(k))]; ok {
						ks = append(ks, k)
					}
				}
				sort.Ints(ks)
				var add []any
				for _, k := range ks {
					vals := rec.h[alKey(int64(k))]
					obs.I(int64(k), int64(len(vals)))
					for _, s := range vals {
						n, _ := strconv.ParseInt(s[1:], 10, 64)
						obs.I(n)
					}
					add = append(add, vals)
				}
				obs.I(-2)
				for _, b := range rec.body {
					obs.I(int64(b))
				}
				advArr = append(add, advArr...)
				advMap = append([]http.Header{rec.h}, advMap...)
				s1, s2, s3 := report("after a hit")
				sig := fmt.Sprint(*obs)
				obs.I(-3, s1, s2, s3)
				emit(ints(8), obs)
				if string(rec.body) != string(wantBody) {
					m.violate("C14", fmt.Sprintf("al trace %d: the hit's body %v is not the bytes the handler passed to Write, %v (the handler reused its scratch slice between Writes: %v): script %v", t, rec.body, wantBody, scratchReused, log), fmt.Sprint(t))
				}
				if rec.h.Get("X-Cache") != "HIT" {
					m.violate("C14", fmt.Sprintf("al trace %d: a repeated request was not served as a HIT (X-Cache=%q) after %v", t, rec.h.Get("X-Cache"), log), fmt.Sprint(t))
				}
				if firstHit == "" {
					firstHit = sig
				} else if sig != firstHit {
					m.violate("C14", fmt.Sprintf("al trace %d (ignored %v, retaining policy %v): a hit delivered %s, the first hit delivered %s; between them only references held outside the middleware were written through: %v", t, ign, retain, sig, firstHit, log), fmt.Sprint(t))
				}
				hits++
			}
		}
		mw.Close()
		m.count(fmt.Sprintf("retain%v", retain))
		if retain && hits >= 2 && wroteArr && wroteMap {
			m.nontrivial(fmt.Sprintf("k%d-i%d-w%d", nset, len(ign), len(advArr)/4))
		}
		if t < 2 {
			m.sample(fmt.Sprintf("al trace %d: %v", t, log))
		}
	}
	w.Close()
	m.Traces, m.Ops = w.traces, w.ops
	m.write(o.out)
}
