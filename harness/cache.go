//go:build verif

package main

import (
	"errors"
	"fmt"
	"math"
	"math/rand"
	"os"
	"runtime"
	"sort"
	"sync"
	"time"

	"github.com/unkn0wn-root/kioshun"
)

// Stream "cache" (C01 C03 C05 C06 C09 C10): API traces on a real cache under a virtual
// clock, with the oracle events the hooks emit, compared with CacheModel; and the
// properties' own monitors (lossy-map reference, budgets, deadlines, removal ledger,
// policy order, counters) evaluated on the implementation after every operation.

const sidCache = 1

type nrec struct{ k, v, r int }

type cacheRun struct {
	m       *meta
	focus   string
	tid     int
	conf    kioshun.Config
	lst     int // bit0 OnRemove, bit1 OnEvict
	wmode   int
	c       *kioshun.Cache[int, int]
	nsh     int
	mu      sync.Mutex
	got     []nrec // delivered OnRemove entries (or OnEvict-only entries) since last quiescent point
	evicted []nrec // OnEvict calls
	deliv   int64
	staged0 int64
	costOf  map[int]int64
	pending []bool
	nextVal int
	now     int64
	// reference state for the monitors
	latest                   map[int]int   // lossy-map reference: latest successfully written value
	deadline                 map[int]int64 // per value: absolute deadline (0 = never)
	ttlOf                    map[int]int64 // per value: effective ttl given
	written                  map[int]int   // value -> key
	state                    map[int]int   // value -> 0 resident-or-lost, 1 replaced, 2 cleared, 3 notified
	touch                    map[int]int   // key -> op index of last read hit / write
	born                     map[int]int   // key -> op index of insertion
	reads                    map[int]int   // key -> read hits since last write
	opi                      int
	inBatch                  bool
	asyncVals                map[int]bool // values written through SetAsync
	syncVals                 map[int]bool // values written by a synchronous Set at a quiescent point
	stepHeld                 bool         // the drain tokens were held when this step began
	forceQueue, holding      bool         // this trace routes async batches through the ring (drain tokens held by the harness)
	dead                     bool
	hits, misses, capN, expN int64
	ops                      []string
}

var cacheStalled bool

func (r *cacheRun) viol(prop, what string) {
	if r.focus != "" && r.focus != prop {
		return
	}
	tail := r.ops
	if len(tail) > 25 {
		tail = tail[len(tail)-25:]
	}
	r.m.violate(prop, what+fmt.Sprintf(" [trace %d cfg %+v listeners=%d weigher=%d]", r.tid, r.conf, r.lst, r.wmode), fmt.Sprintf("last ops: %v", tail))
}

func (r *cacheRun) weigher(k, v int) int64 {
	if c, ok := r.costOf[v]; ok {
		return c
	}
	return 1
}

func policyOf(c kioshun.Config) kioshun.EvictionPolicy {
	if c.EvictionPolicy == kioshun.DefaultEvictionPolicy {
		return kioshun.SieveTinyLFU
	}
	return c.EvictionPolicy
}

func (r *cacheRun) trackCost() bool {
	return r.conf.MaxCost > 0 || r.conf.CostAdmission != kioshun.CostAdmissionFrequency || r.wmode > 0
}

var dbgTrace = os.Getenv("VERIF_DBG") != ""

func newCacheRun(m *meta, rng *rand.Rand, tid int, conf kioshun.Config, lst, wmode int, focus string) *cacheRun {
	r := &cacheRun{m: m, tid: tid, conf: conf, lst: lst, wmode: wmode, focus: focus,
		costOf: map[int]int64{}, latest: map[int]int{}, deadline: map[int]int64{}, ttlOf: map[int]int64{},
		written: map[int]int{}, asyncVals: map[int]bool{}, syncVals: map[int]bool{}, state: map[int]int{}, touch: map[int]int{}, born: map[int]int{}, reads: map[int]int{}}
	var opts []kioshun.Option[int, int]
	if wmode > 0 {
		opts = append(opts, kioshun.WithWeigher(r.weigher))
	}
	if lst&1 != 0 {
		opts = append(opts, kioshun.WithOnRemove(func(k, v int, reason kioshun.RemovalReason) {
			r.mu.Lock()
			r.got = append(r.got, nrec{k, v, int(reason)})
			if lst&2 == 0 || reason != kioshun.RemovedCapacity {
				r.deliv++ // otherwise OnEvict, called right after, counts the delivery
			}
			r.mu.Unlock()
		}))
	}
	if lst&2 != 0 {
		opts = append(opts, kioshun.WithOnEvict(func(k, v int) {
			r.mu.Lock()
			r.evicted = append(r.evicted, nrec{k, v, 0})
			if lst&1 == 0 {
				r.got = append(r.got, nrec{k, v, 0})
			}
			r.deliv++
			r.mu.Unlock()
		}))
	}
	r.now = 1000
	kioshun.VerifSetClock(true, r.now)
	kioshun.VerifTraceOn(true)
	r.staged0 = kioshun.VerifStagedCount()
	c, err := kioshun.New[int, int](conf, opts...)
	must(err)
	r.c = c
	r.nsh = c.VerifShards()
	r.pending = make([]bool, r.nsh)
	return r
}

func (r *cacheRun) mask() int64 {
	var mk int64
	if r.lst&1 != 0 {
		mk |= 15
	}
	if r.lst&2 != 0 {
		mk |= 1
	}
	return mk
}

func (r *cacheRun) cfgToks() *toks {
	t := cfgToks(r.conf, runtime.NumCPU())
	t.I(r.mask()).B(r.wmode > 0).I(r.now)
	return t
}

// events collected since the last call, as (kind, shard, a) triples
func (r *cacheRun) events() *toks {
	t := &toks{}
	for _, e := range kioshun.VerifTakeTrace() {
		if e.Kind == kioshun.VerifEvSample {
			continue // read-buffer replays are outside CacheModel (the estimator is an oracle there)
		}
		sh, a := e.Shard, e.A
		if e.Kind == kioshun.VerifEvLFUVictim {
			k := e.Key.(int)
			sh, a = r.c.VerifShardIndex(k), int64(k)
		}
		t.I(int64(e.Kind), int64(sh), a)
	}
	return t
}

func (r *cacheRun) quiescent() bool {
	for _, p := range r.pending {
		if p {
			return false
		}
	}
	return true
}

// wait until every staged notification has been delivered
func (r *cacheRun) settle() {
	if r.lst == 0 || r.dead {
		return
	}
	t0 := time.Now()
	for i := 0; time.Since(t0) < 2*time.Second; i++ {
		want := kioshun.VerifStagedCount() - r.staged0
		r.mu.Lock()
		have := r.deliv
		r.mu.Unlock()
		if have >= want {
			return
		}
		r.c.VerifFlushRemovals()
		if i > 100 {
			time.Sleep(20 * time.Microsecond)
		}
	}
	r.dead = true
	r.viol("C06", "staged removal notifications were never delivered (2 s after the operation returned)")
}

func (r *cacheRun) takeNotifs() []nrec {
	r.mu.Lock()
	n := r.got
	r.got = nil
	r.mu.Unlock()
	sort.Slice(n, func(i, j int) bool {
		if n[i].k != n[j].k {
			return n[i].k < n[j].k
		}
		if n[i].v != n[j].v {
			return n[i].v < n[j].v
		}
		return n[i].r < n[j].r
	})
	return n
}

func (r *cacheRun) resident() map[int]int {
	out := map[int]int{}
	for i := 0; i < r.nsh; i++ {
		for _, k := range r.c.VerifShardKeys(i) {
			if v, _, _, ok := r.c.VerifPeek(k); ok {
				out[k] = v
			}
		}
	}
	return out
}

type opKind int

const (
	opSet opKind = iota + 1
	opGet
	opGetTTL
	opExists
	opDelete
	opKeys
	opClear
	opCleanup
	opAdvance
	opStats
	opSetAsync
	opSync
	opClose
)

// step runs one operation on the implementation, writes its line pair, and evaluates the monitors.
func (r *cacheRun) step(w *traceWriter, kind opKind, k int, ttl int64, cost int64, adv int64) {
	r.opi++
	c := r.c
	watch(fmt.Sprintf("trace %d op %d kind %d key %d", r.tid, r.opi, kind, k))
	defer unwatch()
	pol := policyOf(r.conf)
	r.stepHeld = r.holding
	fenced := r.holding && (kind == opSync || kind == opClear) // the fence is called while the writes are still queued
	// a synchronous Delete / Set issued while the batch is still queued must first drain the shard's queue: it is started
	// while the tokens are held (it blocks on the drain token) and the tokens are released a moment later
	behind := r.holding && (kind == opDelete || kind == opSet)
	if r.holding && kind != opSetAsync && !fenced && !behind {
		r.release()
	} else if !r.holding {
		r.waitApplied() // a SetAsync that lost a TryLock to the notifier is queued: let the worker apply it first
	}
	pre := r.resident()
	closed := c.VerifClosed()
	sh := 0
	if kind == opSet || kind == opGet || kind == opGetTTL || kind == opExists || kind == opDelete || kind == opSetAsync {
		sh = c.VerifShardIndex(k)
	}
	preInfo := make([]kioshun.VerifShardInfo, r.nsh)
	for i := range preInfo {
		preInfo[i] = c.VerifShardInfo(i)
	}
	op, res := &toks{}, &toks{}
	desc := ""
	var newVal int
	var setErr error
	var getOK bool
	var getV int
	var delOK bool
	switch kind {
	case opSet, opSetAsync:
		r.nextVal++
		newVal = r.nextVal
		if r.wmode > 0 {
			r.costOf[newVal] = cost
		}
		mc := cost
		if !r.trackCost() {
			mc = 0
		} else if r.wmode == 0 {
			mc = 1
		}
		code := int64(1)
		if kind == opSetAsync {
			code = 11
			setErr = c.SetAsync(k, newVal, time.Duration(ttl))
		} else if behind {
			r.behindQueue(func() { setErr = c.Set(k, newVal, time.Duration(ttl)) })
		} else {
			setErr = c.Set(k, newVal, time.Duration(ttl))
		}
		op.I(code, int64(k), int64(newVal), ttl, mc, int64(sh))
		ec := int64(0)
		switch {
		case setErr == nil:
		case errors.Is(setErr, kioshun.ErrInvalidCost):
			ec = 1
		case errors.Is(setErr, kioshun.ErrItemTooLarge):
			ec = 2
		case errors.Is(setErr, kioshun.ErrCacheClosed):
			ec = 3
		default:
			ec = 9
		}
		res.I(ec)
		desc = fmt.Sprintf("%s(%d,v%d,ttl=%d,cost=%d)=%d", map[opKind]string{opSet: "Set", opSetAsync: "SetAsync"}[kind], k, newVal, ttl, mc, ec)
		if kind == opSetAsync && setErr == nil {
			r.asyncVals[newVal] = true
			r.pending[sh] = true
		} else if kind == opSet && setErr == nil {
			r.pending[sh] = false
		}
	case opGet:
		getV, getOK = c.Get(k)
		op.I(2, int64(k), int64(sh))
		res.B(getOK).I(int64(getV))
		desc = fmt.Sprintf("Get(%d)=(%d,%v)", k, getV, getOK)
	case opGetTTL:
		var rem time.Duration
		getV, rem, getOK = c.GetWithTTL(k)
		op.I(3, int64(k), int64(sh))
		res.B(getOK).I(int64(getV), int64(rem))
		desc = fmt.Sprintf("GetWithTTL(%d)=(%d,%d,%v)", k, getV, rem, getOK)
		if getOK {
			v := getV
			dl, ttlGiven := r.deadline[v], r.ttlOf[v]
			switch {
			case dl == 0 && rem != -1:
				r.viol("C05", fmt.Sprintf("GetWithTTL(%d) reports %d for a non-expiring entry", k, rem))
			case dl != 0 && (int64(rem) != dl-r.now || int64(rem) > ttlGiven || rem < 0):
				r.viol("C05", fmt.Sprintf("GetWithTTL(%d) reports remaining %d; deadline-now=%d, ttl given %d", k, rem, dl-r.now, ttlGiven))
			}
		}
	case opExists:
		getOK = c.Exists(k)
		op.I(4, int64(k), int64(sh))
		res.B(getOK)
		desc = fmt.Sprintf("Exists(%d)=%v", k, getOK)
	case opDelete:
		if behind {
			r.behindQueue(func() { delOK = c.Delete(k) })
		} else {
			delOK = c.Delete(k)
		}
		op.I(5, int64(k), int64(sh))
		res.B(delOK)
		desc = fmt.Sprintf("Delete(%d)=%v", k, delOK)
		if !closed {
			r.pending[sh] = false
		}
	case opKeys:
		keys := c.Keys()
		sort.Ints(keys)
		op.I(6)
		for _, x := range keys {
			res.I(int64(x))
		}
		desc = fmt.Sprintf("Keys()=%d keys", len(keys))
		seen := map[int]bool{}
		for _, x := range keys {
			v, in := r.latest[x]
			if !in {
				r.viol("C01", fmt.Sprintf("Keys lists key %d whose latest state is deleted, cleared or never written", x))
			} else if dl := r.deadline[v]; dl != 0 && r.now > dl {
				if pv, ok := pre[x]; ok && pv == v {
					r.viol("C05", fmt.Sprintf("Keys lists key %d at now=%d past its deadline %d", x, r.now, dl))
				}
			}
			if seen[x] {
				r.viol("C01", fmt.Sprintf("Keys lists key %d twice", x))
			}
			seen[x] = true
		}
		if r.conf.MaxSize > 0 && int64(len(keys)) > r.conf.MaxSize {
			r.viol("C03", fmt.Sprintf("Keys reports %d keys, MaxSize %d", len(keys), r.conf.MaxSize))
		}
		if closed && len(keys) != 0 {
			r.viol("C08", "Keys non-empty after Close")
		}
	case opClear:
		if fenced {
			r.fence(func() { c.Clear() })
		} else {
			c.Clear()
		}
		op.I(7)
		desc = "Clear()"
		if !closed {
			for i := range r.pending {
				r.pending[i] = false
			}
		}
	case opCleanup:
		c.Cleanup()
		op.I(8)
		desc = "Cleanup()"
	case opAdvance:
		r.now = kioshun.VerifAdvance(adv)
		op.I(9, adv)
		res.I(r.now)
		desc = fmt.Sprintf("Advance(%d)->%d", adv, r.now)
	case opStats:
		st := c.Stats()
		op.I(10)
		res.I(c.Size(), c.Cost(), st.Hits, st.Misses, st.Evictions, st.Expirations)
		desc = fmt.Sprintf("Stats size=%d cost=%d h=%d m=%d ev=%d ex=%d", c.Size(), c.Cost(), st.Hits, st.Misses, st.Evictions, st.Expirations)
	case opSync:
		var err error
		if fenced {
			r.fence(func() { err = c.Sync() })
		} else {
			err = c.Sync()
		}
		op.I(12)
		if err != nil {
			res.I(3)
		} else {
			res.I(0)
			for i := range r.pending {
				r.pending[i] = false
			}
		}
		desc = fmt.Sprintf("Sync()=%v", err)
	case opClose:
		c.Close()
		op.I(13)
		desc = "Close()"
		for i := range r.pending {
			r.pending[i] = false
		}
	}
	if dbgTrace {
		h0, t0, _, _ := c.VerifRingState(0)
		desc += fmt.Sprintf(" {hold=%v ring0=%d/%d pre=%v}", r.holding, h0, t0, pre)
	}
	r.ops = append(r.ops, desc)
	q := r.quiescent()
	var notifs []nrec
	if q {
		r.settle()
		notifs = r.takeNotifs()
		res.I(-7, 0, 0)
		for _, n := range notifs {
			res.I(int64(n.k), int64(n.v), int64(n.r))
		}
	} else {
		res.I(-8)
	}
	*op = append(*op, *r.events()...)
	w.O(op, res)
	r.m.count(map[opKind]string{opSet: "set", opGet: "get", opGetTTL: "getttl", opExists: "exists", opDelete: "delete", opKeys: "keys",
		opClear: "clear", opCleanup: "cleanup", opAdvance: "advance", opStats: "stats", opSetAsync: "setasync", opSync: "sync", opClose: "close"}[kind])
	wasBatch := r.inBatch
	r.inBatch = !q
	if !q || behind {
		// (behind: the reference snapshot `pre` was taken while writes were still queued; bookkeeping only)
		// inside an async batch: reference bookkeeping only
		if (kind == opSetAsync || kind == opSet) && setErr == nil {
			pv0, was0 := pre[k]
			r.noteWrite(k, newVal, ttl, was0, pv0)
		}
		if kind == opDelete {
			delete(r.latest, k)
		}
		for _, n := range notifs { // only possible for a quiescent `behind` step: keep the ledger and the counters in step
			r.state[n.v] = 3
			switch kioshun.RemovalReason(n.r) {
			case kioshun.RemovedCapacity:
				r.capN++
			case kioshun.RemovedExpired:
				r.expN++
			}
		}
		if q && r.lst == 3 {
			r.mu.Lock()
			r.evicted = nil
			r.mu.Unlock()
		}
		return
	}

	// ------------------------------------------------------------ monitors (quiescent points)
	post := r.resident()
	pv0, wasRes0 := pre[k]
	if kind == opSet && setErr == nil {
		r.noteWrite(k, newVal, ttl, wasRes0, pv0)
		if !wasBatch {
			r.syncVals[newVal] = true
		}
	}
	// C06 ledger
	for _, n := range notifs {
		wk, was := r.written[n.v]
		if !was || wk != n.k {
			r.viol("C06", fmt.Sprintf("notification (%d,v%d,%s) does not match any written entry", n.k, n.v, kioshun.RemovalReason(n.r)))
			continue
		}
		if r.state[n.v] == 3 {
			r.viol("C06", fmt.Sprintf("entry (%d,v%d) notified twice", n.k, n.v))
			if r.asyncVals[n.v] {
				r.viol("C04", fmt.Sprintf("the SetAsync that wrote (%d,v%d) was applied more than once: its entry left the cache twice", n.k, n.v))
			}
		}
		if r.state[n.v] == 1 || r.state[n.v] == 2 {
			r.viol("C06", fmt.Sprintf("entry (%d,v%d) was %s yet notified as %s", n.k, n.v, []string{"", "replaced", "cleared"}[r.state[n.v]], kioshun.RemovalReason(n.r)))
		}
		r.state[n.v] = 3
		if pv, ok := post[n.k]; ok && pv == n.v {
			r.viol("C06", fmt.Sprintf("entry (%d,v%d) reported %s but still readable", n.k, n.v, kioshun.RemovalReason(n.r)))
		}
		_, wasResident := pre[n.k]
		wasResident = wasResident && pre[n.k] == n.v
		switch kioshun.RemovalReason(n.r) {
		case kioshun.RemovedDeleted:
			if !(kind == opDelete && n.k == k) && !r.batchTouched(kind) && !wasBatch {
				r.viol("C06", fmt.Sprintf("(%d,v%d) reported deleted by %s", n.k, n.v, desc))
			}
		case kioshun.RemovedExpired:
			if dl := r.deadline[n.v]; dl == 0 || r.now <= dl {
				r.viol("C06", fmt.Sprintf("(%d,v%d) reported expired at now=%d, deadline %d", n.k, n.v, r.now, dl))
			}
		case kioshun.RemovedCapacity:
			if !wasResident && !(n.v == newVal && wasRes0 && kind == opSet) && !r.batchTouched(kind) && !wasBatch {
				r.viol("C06", fmt.Sprintf("(%d,v%d) reported as capacity eviction but it was never readable (op %s)", n.k, n.v, desc))
			}
			r.capN++
		case kioshun.RemovedRejected:
			if pol != kioshun.SieveTinyLFU {
				r.viol("C06", fmt.Sprintf("(%d,v%d) reported rejected under a non-admission policy", n.k, n.v))
			}
		}
		if kioshun.RemovalReason(n.r) == kioshun.RemovedExpired {
			r.expN++
		}
	}
	if r.lst == 3 {
		r.mu.Lock()
		ev := r.evicted
		r.evicted = nil
		r.mu.Unlock()
		capn := 0
		for _, n := range notifs {
			if n.r == 0 {
				capn++
			}
		}
		if len(ev) != capn {
			r.viol("C06", fmt.Sprintf("OnEvict called %d times, %d capacity notifications (op %s)", len(ev), capn, desc))
		}
	}
	// entries that left the table without a reason a listener would hear about
	if r.lst&1 != 0 && kind != opClear && kind != opClose && !wasBatch {
		for pk, pv := range pre {
			if nv, still := post[pk]; still && nv == pv {
				continue
			}
			replaced := (kind == opSet || kind == opSync || kind == opDelete) && r.latest[pk] != pv
			if r.state[pv] != 3 && !replaced && !(kind == opSet && pk == k) && kind != opSync {
				r.viol("C06", fmt.Sprintf("entry (%d,v%d) left the cache during %s without a notification", pk, pv, desc))
			}
		}
	}

	switch kind {
	case opSet:
		if setErr == nil {
			wasRes := wasRes0
			pv, in := post[k]
			if in && pv != newVal {
				r.viol("C01", fmt.Sprintf("after Set(%d,v%d) the key holds v%d", k, newVal, pv))
			}
			weighted := r.trackCost() && r.wmode > 0
			if wasRes && !in && !weighted && !wasBatch {
				r.viol("C01", fmt.Sprintf("Set(%d) on a resident key did not take effect (unweighted)", k))
			}
			// C03: room / at-most-one
			inf := preInfo[sh]
			removed := 0
			for pk, pv := range pre {
				if nv, still := post[pk]; !(still && nv == pv) && pk != k {
					if dl := r.deadline[pv]; !(dl != 0 && r.now > dl) {
						removed++
					}
				}
			}
			if !in && !wasRes {
				removed++ // the candidate itself was declined
			}
			room := (inf.Cap == 0 || inf.Size < inf.Cap) && (inf.CostCap == 0 || inf.Cost+r.costArg(newVal) <= inf.CostCap)
			if !wasRes && room && !wasBatch && (removed > 0 || len(notifs) > 0) {
				r.viol("C03", fmt.Sprintf("insert of key %d into a shard with room (size %d/%d cost %d/%d) removed %d entries / %d notifications", k, inf.Size, inf.Cap, inf.Cost, inf.CostCap, removed, len(notifs)))
			}
			if !wasRes && !weighted && !wasBatch && removed > 1 {
				r.viol("C03", fmt.Sprintf("unweighted insert of key %d removed %d entries", k, removed))
			}
			if r.conf.MaxSize == 0 && r.conf.MaxCost == 0 && removed > 0 {
				r.viol("C03", fmt.Sprintf("unbounded cache dropped %d entries on Set(%d)", removed, k))
			}
			if !wasBatch {
				if !r.forceQueue {
					r.policyCheck(pol, pre, post, k, sh, desc)
					// C09, reference budget: the room is recomputed from the entries themselves (not from the
					// implementation's counters); a reference LRU / LFU / FIFO with room evicts nothing
					if pol != kioshun.SieveTinyLFU && !wasRes {
						var refSize, refCost int64
						for pk, pv := range pre {
							if r.c.VerifShardIndex(pk) == sh {
								refSize++
								refCost += r.costArg(pv)
							}
						}
						refRoom := (inf.Cap == 0 || refSize < inf.Cap) && (inf.CostCap == 0 || refCost+r.costArg(newVal) <= inf.CostCap)
						if refRoom && removed > 0 {
							r.viol("C09", fmt.Sprintf("%s evicted %d entries although the shard had room by the entries it holds (%d of %d entries, weight %d+%d of %d): a reference %v keeps them all", desc, removed, refSize, inf.Cap, refCost, r.costArg(newVal), inf.CostCap, pol))
						}
					}
				}
			}
		} else {
			if len(pre) != len(post) {
				r.viol("C01", fmt.Sprintf("failed %s changed the number of entries %d -> %d", desc, len(pre), len(post)))
			}
			for pk, pv := range pre {
				if post[pk] != pv {
					r.viol("C01", fmt.Sprintf("failed %s changed key %d", desc, pk))
				}
			}
			if closed && !errors.Is(setErr, kioshun.ErrCacheClosed) && !errors.Is(setErr, kioshun.ErrInvalidCost) && !errors.Is(setErr, kioshun.ErrItemTooLarge) {
				r.viol("C08", "Set after Close did not fail with ErrCacheClosed")
			}
		}
	case opGet, opGetTTL, opExists:
		if getOK {
			if kind != opExists {
				if lv, in := r.latest[k]; !in || lv != getV {
					r.viol("C01", fmt.Sprintf("%s returned a value that is not the latest write (latest: v%d present=%v)", desc, lv, in))
				}
				if dl := r.deadline[getV]; dl != 0 && r.now > dl {
					r.viol("C05", fmt.Sprintf("%s served an entry at now=%d past its deadline %d", desc, r.now, dl))
				}
			} else if pv, in := pre[k]; in {
				if dl := r.deadline[pv]; dl != 0 && r.now > dl {
					r.viol("C05", fmt.Sprintf("%s true at now=%d past deadline %d", desc, r.now, dl))
				}
			}
			if kind != opExists {
				r.hits++
				r.touch[k] = r.opi
				r.reads[k]++
			}
			if closed {
				r.viol("C08", desc+" hit after Close")
			}
		} else {
			if kind != opExists && !closed {
				r.misses++
			}
			// C05: an unexpired resident must be served
			if pv, in := pre[k]; in && !closed && !wasBatch {
				if dl := r.deadline[pv]; dl == 0 || r.now <= dl {
					r.viol("C05", fmt.Sprintf("%s missed although (%d,v%d) is resident and unexpired (deadline %d, now %d)", desc, k, pv, dl, r.now))
				}
			}
		}
	case opDelete:
		_, wasRes := pre[k]
		if delOK != (wasRes && !closed) && !wasBatch {
			r.viol("C01", fmt.Sprintf("%s but residency before the call was %v", desc, wasRes))
		}
		if _, in := post[k]; in && delOK {
			r.viol("C01", fmt.Sprintf("%s but the key is still resident", desc))
		}
		if delOK || !closed {
			delete(r.latest, k)
		}
	case opClear, opClose:
		if !closed {
			for _, pv := range pre {
				if r.state[pv] == 0 {
					r.state[pv] = 2
				}
			}
			r.latest = map[int]int{}
			if len(post) != 0 {
				r.viol("C01", desc+" left entries behind")
				if fenced {
					r.viol("C04", desc+" returned but writes accepted before it are resident afterwards")
				}
			}
			if len(notifs) != 0 && kind == opClear && !fenced {
				// notifications staged by writes drained by the barrier are legitimate; entries cleared are not
				for _, n := range notifs {
					if pv, in := pre[n.k]; in && pv == n.v {
						r.viol("C06", fmt.Sprintf("Clear reported (%d,v%d)", n.k, n.v))
					}
				}
			}
		}
	case opCleanup:
		if !closed {
			for pk, pv := range post {
				if dl := r.deadline[pv]; dl != 0 && r.now > dl {
					r.viol("C05", fmt.Sprintf("Cleanup left expired entry (%d,v%d) deadline %d now %d", pk, pv, dl, r.now))
				}
			}
			for pk, pv := range pre {
				if _, still := post[pk]; !still {
					if dl := r.deadline[pv]; dl == 0 || r.now <= dl {
						r.viol("C05", fmt.Sprintf("Cleanup removed unexpired entry (%d,v%d)", pk, pv))
					}
				}
			}
		}
	case opSync:
		// values written asynchronously are visible or were legitimately lost
		for pk, pv := range post {
			if lv, in := r.latest[pk]; !in || lv != pv {
				r.viol("C01", fmt.Sprintf("after Sync key %d holds v%d, latest accepted write is v%d (present=%v)", pk, pv, lv, in))
			}
		}
		if r.conf.MaxSize == 0 && r.conf.MaxCost == 0 && !closed {
			// nothing can be displaced: every write accepted before Sync must be visible now
			for lk, lv := range r.latest {
				if dl := r.deadline[lv]; dl != 0 && r.now > dl {
					continue
				}
				if pv, in := post[lk]; !in || pv != lv {
					for _, p := range []string{"C04", "C01"} {
						r.viol(p, fmt.Sprintf("Sync returned, the cache has no limits, yet key %d (latest accepted write v%d) reads (v%d,%v)", lk, lv, pv, in))
					}
				}
			}
		}
	case opStats:
		st := c.Stats()
		var wantCost int64
		for pk, pv := range post {
			_, _, cst, _ := c.VerifPeek(pk)
			_ = pv
			wantCost += cst
		}
		if c.Size() != int64(len(post)) {
			r.viol("C10", fmt.Sprintf("Size()=%d but the cache holds %d entries", c.Size(), len(post)))
		}
		if !r.trackCost() {
			wantCost = int64(len(post))
		}
		if c.Cost() != wantCost {
			r.viol("C10", fmt.Sprintf("Cost()=%d but resident weights sum to %d", c.Cost(), wantCost))
		}
		if r.wmode > 0 {
			var w2 int64
			for pk, pv := range post {
				_ = pk
				w2 += r.costOf[pv]
			}
			if c.Cost() != w2 {
				r.viol("C10", fmt.Sprintf("Cost()=%d but the weigher sums to %d over resident entries", c.Cost(), w2))
			}
		}
		if r.conf.StatsEnabled {
			if st.Hits != r.hits || st.Misses != r.misses {
				r.viol("C10", fmt.Sprintf("Stats hits/misses %d/%d, observed %d/%d", st.Hits, st.Misses, r.hits, r.misses))
			}
			if r.lst&1 != 0 && (st.Evictions != r.capN || st.Expirations != r.expN) {
				r.viol("C10", fmt.Sprintf("Stats evictions/expirations %d/%d, notifications %d/%d", st.Evictions, st.Expirations, r.capN, r.expN))
			}
		} else if st.Hits+st.Misses+st.Evictions+st.Expirations != 0 {
			r.viol("C10", "stats disabled but counters moved")
		}
	}
	// C03 budgets, C10 structure: after every operation at a quiescent point
	var keysTotal int64
	for i := 0; i < r.nsh; i++ {
		inf := c.VerifShardInfo(i)
		keysTotal += inf.Size
		if inf.Cap > 0 && inf.Size > inf.Cap {
			r.viol("C03", fmt.Sprintf("shard %d holds %d entries, budget %d (after %s)", i, inf.Size, inf.Cap, desc))
		}
		if inf.CostCap > 0 && inf.Cost > inf.CostCap {
			r.viol("C03", fmt.Sprintf("shard %d weighs %d, budget %d (after %s)", i, inf.Cost, inf.CostCap, desc))
		}
		if inf.CostCap > 0 && r.wmode == 0 && inf.Size > inf.CostCap {
			// no weigher: every entry weighs 1, so the weight budget bounds the number of entries (independent of the cost counter)
			r.viol("C03", fmt.Sprintf("shard %d holds %d unit-weight entries, weight budget %d (after %s)", i, inf.Size, inf.CostCap, desc))
		}
	}
	if r.conf.MaxCost > 0 && r.wmode == 0 && int64(len(post)) > r.conf.MaxCost {
		r.viol("C03", fmt.Sprintf("%d resident unit-weight entries exceed MaxCost %d (after %s)", len(post), r.conf.MaxCost, desc))
	}
	if r.conf.MaxCost > 0 && r.wmode > 0 {
		var w2 int64
		for _, pv := range post {
			w2 += r.costOf[pv]
		}
		if w2 > r.conf.MaxCost {
			r.viol("C03", fmt.Sprintf("resident weight %d exceeds MaxCost %d (after %s)", w2, r.conf.MaxCost, desc))
		}
	}
	if r.conf.MaxSize > 0 && int64(len(post)) > r.conf.MaxSize {
		r.viol("C03", fmt.Sprintf("%d resident entries, MaxSize %d", len(post), r.conf.MaxSize))
	}
	if err := c.VerifCheckInvariants(); err != nil {
		r.viol("C10", "internal structures disagree: "+err.Error()+" (after "+desc+")")
	}
	if int64(len(post)) != keysTotal {
		r.viol("C10", fmt.Sprintf("size counters sum to %d, table holds %d", keysTotal, len(post)))
	}
	// reference bookkeeping of disappearances
	for pk, pv := range pre {
		if nv, still := post[pk]; !still || nv != pv {
			if !still {
				delete(r.touch, pk)
				delete(r.born, pk)
				delete(r.reads, pk)
			}
		}
	}
}

// audit (C06 conservation over the whole history, with OnRemove installed and before Close): every value ever
// written is resident, was replaced, was cleared, or was notified.
func (r *cacheRun) audit() {
	if r.lst&1 == 0 || r.dead || r.c.VerifClosed() || !r.quiescent() {
		return
	}
	r.waitApplied()
	r.settle()
	for _, n := range r.takeNotifs() {
		if r.state[n.v] == 0 || r.state[n.v] == 4 {
			r.state[n.v] = 3
		}
	}
	post := r.resident()
	lost := 0
	for v, k := range r.written {
		if st := r.state[v]; st != 0 || !r.syncVals[v] {
			continue
		}
		if pv, in := post[k]; in && pv == v {
			continue
		}
		lost++
		if lost <= 2 {
			r.viol("C06", fmt.Sprintf("conservation: entry (%d,v%d) was written, is not resident, was neither replaced nor cleared, and no notification was ever delivered for it", k, v))
		}
	}
}

// hold takes every shard's drain token so the SetAsync calls of this batch are queued, not applied inline.
func (r *cacheRun) hold() {
	if _, _, _, ring := r.c.VerifRingState(0); ring < 8 || r.c.VerifClosed() {
		return
	}
	for i := 0; i < r.nsh; i++ {
		r.c.VerifHoldDrain(i, true)
	}
	r.holding = true
	r.m.count("queued_batches")
}

// release hands the tokens back and waits until the workers have applied everything that was queued.
func (r *cacheRun) release() {
	r.holding = false
	for i := 0; i < r.nsh; i++ {
		r.c.VerifHoldDrain(i, false)
	}
	r.waitApplied()
}

// fence runs a Sync/Clear while the batch is still queued behind the held tokens: the tokens are released only
// after the call has put its barrier into every ring (or has returned early), then everything is applied.
func (r *cacheRun) fence(call func()) {
	h0 := make([]uint64, r.nsh)
	for i := range h0 {
		h0[i], _, _, _ = r.c.VerifRingState(i)
	}
	done := make(chan struct{})
	go func() { call(); close(done) }()
	t0 := time.Now()
wait:
	for time.Since(t0) < 2*time.Second {
		select {
		case <-done:
			break wait
		default:
		}
		all := true
		for i := range h0 {
			if h, _, _, _ := r.c.VerifRingState(i); h == h0[i] {
				all = false
			}
		}
		if all {
			break
		}
		runtime.Gosched()
	}
	r.holding = false
	for i := 0; i < r.nsh; i++ {
		r.c.VerifHoldDrain(i, false)
	}
	<-done
	r.waitApplied()
	r.m.count("fenced_batches")
}

// behindQueue starts a synchronous mutation while the harness still holds the drain tokens, gives it a moment to reach
// (and, in a correct implementation, block on) the token, then releases the tokens and waits for it and for the queue.
func (r *cacheRun) behindQueue(call func()) {
	done := make(chan struct{})
	go func() { call(); close(done) }()
	select {
	case <-done: // it did not need the token (e.g. a validation error, a closed cache)
	case <-time.After(300 * time.Microsecond):
	}
	r.holding = false
	for i := 0; i < r.nsh; i++ {
		r.c.VerifHoldDrain(i, false)
	}
	<-done
	r.waitApplied()
	r.m.count("sync_mutations_behind_queue")
}

// waitApplied waits until every ring is empty and every drain token free: all accepted writes are applied.
func (r *cacheRun) waitApplied() {
	t0 := time.Now()
	for i := 0; i < r.nsh; i++ {
		for {
			h, t, _, _ := r.c.VerifRingState(i)
			if h == t {
				if free, _, _, _, _ := r.c.VerifLockState(i); free {
					break
				}
			}
			if time.Since(t0) > 5*time.Second {
				props := []string{"C04", "C07"}
				if r.focus != "" && r.focus != "C04" && r.focus != "C07" {
					props = append(props, r.focus)
				}
				for _, p := range props {
					r.viol(p, fmt.Sprintf("shard %d never became quiescent (ring empty and drain token free) within 5 s after the last call returned: queued writes are not applied or the drain token is never released", i))
				}
				cacheStalled = true // no point in running further traces against a stalled implementation
				return
			}
			runtime.Gosched()
		}
	}
}

func (r *cacheRun) batchTouched(kind opKind) bool {
	return kind == opSync || kind == opClear || kind == opClose
}

func (r *cacheRun) costArg(v int) int64 {
	if !r.trackCost() {
		return 0
	}
	if r.wmode == 0 {
		return 1
	}
	return r.costOf[v]
}

func (r *cacheRun) noteWrite(k, v int, ttl int64, wasRes bool, resVal int) {
	if old, ok := r.latest[k]; ok && r.state[old] == 0 && (r.holding || r.stepHeld) {
		r.state[old] = 4 // superseded while queued: replaced silently or displaced first, both legitimate
	} else if ok && r.state[old] == 0 && wasRes && resVal == old {
		r.state[old] = 1
	}
	if !wasRes {
		delete(r.born, k)
	}
	r.latest[k] = v
	r.written[v] = k
	eff := ttl
	if eff == 0 {
		eff = int64(r.conf.DefaultTTL)
	}
	if eff > 0 {
		dl := eff + r.now
		if r.now > 0 && eff > math.MaxInt64-r.now {
			dl = math.MaxInt64
		}
		r.deadline[v] = dl
		r.ttlOf[v] = eff
	} else {
		r.deadline[v] = 0
	}
	if _, had := r.born[k]; !had {
		r.born[k] = r.opi
	}
	r.touch[k] = r.opi
	r.reads[k] = 0
}

// policyCheck (C09): every entry displaced by this write must be the one the policy names.
func (r *cacheRun) policyCheck(pol kioshun.EvictionPolicy, pre, post map[int]int, k, sh int, desc string) {
	if pol == kioshun.SieveTinyLFU {
		return
	}
	c := r.c
	var victims, survivors []int
	for pk, pv := range pre {
		if c.VerifShardIndex(pk) != sh {
			continue
		}
		if dl := r.deadline[pv]; dl != 0 && r.now > dl {
			continue
		}
		if _, still := post[pk]; still {
			survivors = append(survivors, pk)
		} else {
			victims = append(victims, pk)
		}
	}
	if _, in := post[k]; in {
		if _, was := pre[k]; !was {
			survivors = append(survivors, k)
		}
	} else if _, was := pre[k]; !was {
		// LRU / LFU / FIFO make room BEFORE inserting: the victim is chosen among the entries that were there, so
		// the reference implementation always holds the key just inserted
		r.viol("C09", fmt.Sprintf("%s succeeded, yet the new key %d is not resident afterwards (victims %v): the policy evicts among the entries present before the insert", desc, k, victims))
		return
	}
	for _, v := range victims {
		for _, u := range survivors {
			bad := false
			switch pol {
			case kioshun.LRU:
				bad = r.touch[v] > r.touch[u]
			case kioshun.FIFO:
				bad = r.born[v] > r.born[u]
			case kioshun.LFU:
				bad = r.reads[v] > r.reads[u] && u != k
			}
			if bad {
				r.viol("C09", fmt.Sprintf("%s evicted key %d (touch %d born %d reads %d) while key %d (touch %d born %d reads %d) stayed", desc, v, r.touch[v], r.born[v], r.reads[v], u, r.touch[u], r.born[u], r.reads[u]))
				return
			}
		}
	}
}

func randCacheConfig(rng *rand.Rand, focus string) (kioshun.Config, int, int) {
	pols := []kioshun.EvictionPolicy{kioshun.LRU, kioshun.LFU, kioshun.FIFO, kioshun.SieveTinyLFU, kioshun.DefaultEvictionPolicy, kioshun.SieveTinyLFU}
	if focus == "C09" {
		pols = []kioshun.EvictionPolicy{kioshun.LRU, kioshun.LFU, kioshun.FIFO}
	}
	conf := kioshun.Config{
		EvictionPolicy: pick(rng, pols),
		ShardCount:     pick(rng, []int{1, 1, 2, 4, 8}),
		MaxSize:        pick(rng, []int64{0, 1, 2, 3, 5, 8, 8, 16, 16, 24, 64}),
		DefaultTTL:     pick(rng, []time.Duration{0, -1, time.Hour, 5000}),
		StatsEnabled:   rng.Intn(3) > 0,
		ProbationRatio: pick(rng, []uint8{0, 0, 10, 30, 60, 100}),
		GhostRatio:     pick(rng, []uint8{0, 0, 50, 100}),
	}
	wmode := 0
	if rng.Intn(3) == 0 {
		conf.MaxCost = pick(rng, []int64{1, 7, 20, 50})
		wmode = 1 + rng.Intn(3)
		if rng.Intn(4) == 0 {
			conf.MaxSize = 0 // cost-only cache: no entry limit, evictions driven by weight alone
		}
		if rng.Intn(4) == 0 {
			wmode = 0 // MaxCost without a weigher: every entry weighs 1
		}
		conf.CostAdmission = kioshun.CostAdmission(rng.Intn(3))
	} else if rng.Intn(8) == 0 {
		wmode = 1
	}
	if focus != "C09" && rng.Intn(8) == 0 {
		// cost-aware admission with weights around perfect squares
		conf.EvictionPolicy = kioshun.SieveTinyLFU
		conf.MaxSize = pick(rng, []int64{8, 16, 24})
		conf.MaxCost = pick(rng, []int64{300, 600})
		conf.CostAdmission = pick(rng, []kioshun.CostAdmission{kioshun.CostAdmissionBalanced, kioshun.CostAdmissionBalanced, kioshun.CostAdmission(1)})
		wmode = 4
	}
	pol := policyOf(conf)
	if pol == kioshun.SieveTinyLFU && conf.MaxSize == 0 && conf.MaxCost > 0 {
		conf.MaxSize = 16
	}
	lst := pick(rng, []int{0, 1, 1, 3, 3, 2})
	return conf, lst, wmode
}

func (r *cacheRun) pickTTL(rng *rand.Rand) int64 {
	return pick(rng, []int64{0, 0, 0, -1, -7, 1, 40, 1000, 1000, 100000, int64(time.Hour), 1 << 62, math.MaxInt64})
}

func (r *cacheRun) pickCost(rng *rand.Rand, k int) int64 {
	switch r.wmode {
	case 1:
		return int64(k % 5)
	case 2:
		n := r.conf.MaxCost
		if n <= 0 {
			n = 10
		}
		per := n/int64(r.nsh) + 2
		return rng.Int63n(per + 1)
	case 3:
		if rng.Intn(12) == 0 {
			return -1 - rng.Int63n(3)
		}
		return rng.Int63n(4)
	case 4:
		// weights around perfect squares (k*k-1, k*k, k*k+1): the cost-aware admission scores take integer square roots
		return pick(rng, []int64{3, 4, 5, 8, 9, 10, 15, 16, 17, 24, 25, 35, 36, 48, 63, 64, 99, 1, 2})
	}
	return 1
}

// fifoUpgradeProbe (C09, C05; deterministic through yield point 261): a FIFO Get finds its key expired under the read
// lock and upgrades to the write lock; between the read unlock and the write lock a synchronous Set refreshes the key
// in place. The Get then serves the refreshed entry - and the entry keeps its place in insertion order: the next
// insert into the full shard evicts it (the earliest inserted), not the second oldest.
func fifoUpgradeProbe(m *meta) {
	for rep := 0; rep < 4; rep++ {
		kioshun.VerifSetClock(true, 1000)
		c, err := kioshun.New[int, int](kioshun.Config{MaxSize: 3, ShardCount: 1, EvictionPolicy: kioshun.FIFO, StatsEnabled: rep%2 == 0})
		must(err)
		ctx := fmt.Sprintf("FIFO lock-upgrade probe %d", rep)
		watch(ctx)
		c.Set(1, 1, 10*time.Nanosecond)
		c.Set(2, 2, kioshun.NoExpiration)
		c.Set(3, 3, kioshun.NoExpiration)
		kioshun.VerifAdvance(100)
		kioshun.VerifSchedReset(true, 2*time.Second)
		var gv int
		var gok bool
		kioshun.VerifSchedSpawn(1, func() { gv, gok = c.Get(1) })
		p := stepUntil(1, 261)
		if p != 261 {
			kioshun.VerifSchedRelease()
			kioshun.VerifSchedReset(false, 0)
			unwatch()
			c.Close()
			m.count("fifo_upgrade_setup_failed")
			continue
		}
		c.Set(1, 11, time.Hour) // lands between RUnlock and Lock
		if q := stepUntil(1); q != kioshun.VerifStepDone {
			m.violate("C07", fmt.Sprintf("%s: Get(1) parked between its read unlock and write lock did not finish after Set(1,11,1h) completed (step result %d)", ctx, q), ctx)
		}
		kioshun.VerifSchedRelease()
		kioshun.VerifSchedReset(false, 0)
		if !gok || gv != 11 {
			m.violate("C05", fmt.Sprintf("%s: Set(1,1,10ns), Set(2), Set(3); clock +100ns; Get(1) saw the entry expired and released the read lock; Set(1,11,1h) completed; the Get then returned (%d,%v): the refreshed entry is live and must be served (or the key reported absent, never the stale value)", ctx, gv, gok), ctx)
		}
		order := c.VerifListKeys(0)
		c.Set(4, 4, kioshun.NoExpiration)
		e1, e2 := c.Exists(1), c.Exists(2)
		if e1 || !e2 {
			m.violate("C09", fmt.Sprintf("%s: FIFO, capacity 3: Set(1,ttl 10ns), Set(2), Set(3); key 1 expires; a Get(1) upgrading its lock is overtaken by Set(1,11,1h) (an update: insertion order unchanged) and serves it; list order then %v; Set(4) must evict key 1, the earliest inserted - resident afterwards: key 1 %v, key 2 %v", ctx, order, e1, e2), ctx)
		}
		unwatch()
		c.Close()
		m.count("fifo_upgrade_probes")
	}
}

func streamCache(o opts, focus string) {
	rng := newRand(o.seed, "cache"+focus)
	m := newMeta("cache", o.seed)
	m.Rule = "API traces (Set, SetAsync batches closed by Sync, Get, GetWithTTL, Exists, Delete, Keys, Clear, Cleanup, clock advances landing on/next to deadlines, Stats, Close last) over a key domain 1.5-4x capacity, policies {LRU,LFU,FIFO,Sieve,default} x shards {1,2,4,8} x MaxSize {0..64} x MaxCost/weigher modes x DefaultTTL x stats x listeners, plus directed prefixes (fill, update all, insert; fill, read oldest; zero-cost floods; cost-growing update of the LRU tail); non-trivial = trace with an eviction, an expiry and an update; distinct by (policy, shards, MaxSize, weigher mode, listeners); in every third trace the harness holds the drain tokens during async batches so that the SetAsync calls go through the ring and applyWriteBatch instead of the inline path"
	w := newTraceWriter(o.out, "cache")
	for t := 0; t < o.n && !cacheStalled; t++ {
		conf, lst, wmode := randCacheConfig(rng, focus)
		directed := t % 6
		if directed == 5 && focus != "C09" {
			conf = kioshun.Config{EvictionPolicy: kioshun.SieveTinyLFU, ShardCount: 1, MaxSize: pick(rng, []int64{100, 300, 1000}), StatsEnabled: true, ProbationRatio: pick(rng, []uint8{0, 60})}
			lst, wmode = 3, 0
			if t%12 == 11 {
				// weighted variant: unit weights up to the budget, then one update that needs dozens of evictions
				conf.MaxSize = pick(rng, []int64{100, 300})
				conf.MaxCost = conf.MaxSize
				wmode = 1
			}
		}
		r := newCacheRun(m, rng, t, conf, lst, wmode, focus)
		r.forceQueue = t%3 == 1
		w.T(sidCache, r.cfgToks())
		capTotal := conf.MaxSize
		if capTotal == 0 {
			capTotal = 12
		}
		dom := int(capTotal)*3/2 + 2 + rng.Intn(int(capTotal)*2+2)
		nops := 80 + rng.Intn(160)
		sawEv, sawExp, sawUpd := false, false, false
		if directed == 5 && focus != "C09" {
			// fill -> update (all or all but the oldest) -> read some -> insert: forced repair states
			n := int(conf.MaxSize)
			for i := 0; i < n; i++ {
				r.step(w, opSet, i, -1, 1, 0)
			}
			from := rng.Intn(2)
			for i := from; i < n; i++ {
				r.step(w, opSet, i, -1, 1, 0)
			}
			for i := 0; i < rng.Intn(40); i++ {
				r.step(w, opGet, rng.Intn(n), 0, 0, 0)
			}
			for i := 0; i < 3; i++ {
				r.step(w, opSet, n+i, -1, 1, 0)
			}
			if conf.MaxCost > 0 {
				// a cost-growing update far beyond the 32-step bounded pass: the forced repair must evict, notify and count each
				r.step(w, opSet, n-1, -1, int64(n*4/5), 0)
				r.step(w, opSet, n/2, -1, int64(n/2), 0)
			}
			r.step(w, opStats, 0, 0, 0, 0)
			nops = 30
			dom = n + 10
			sawEv, sawUpd = true, true
		}
		// every fourth trace uses the integer keys whose hashes are the table's sentinel values: 0 and 2 (and 1 and 3)
		// share a normalised tag, and with one or two shards they share a shard
		sentinel := t%4 == 2 && directed == 0
		for i := 0; i < nops; i++ {
			k := rng.Intn(dom)
			if sentinel && k >= 1 && k <= 3 {
				k = int(invAvalanche([]uint64{0, 2, 1, 3}[k]))
			}
			switch x := rng.Intn(100); {
			case x < 34:
				_, was := r.latest[k]
				sawUpd = sawUpd || was
				r.step(w, opSet, k, r.pickTTL(rng), r.pickCost(rng, k), 0)
			case x < 46:
				r.step(w, opGet, k, 0, 0, 0)
			case x < 52:
				// skewed reads of resident keys: frequency gaps for LFU, recency for LRU, visited bits / promotions for Sieve
				res := r.resident()
				if len(res) == 0 {
					r.step(w, opGet, k, 0, 0, 0)
					break
				}
				ks := make([]int, 0, len(res))
				for rk := range res {
					ks = append(ks, rk)
				}
				sort.Ints(ks)
				hot := ks[rng.Intn(len(ks))]
				for j, n := 0, 1+rng.Intn(4); j < n; j++ {
					r.step(w, opGet, hot, 0, 0, 0)
				}
				r.m.count("hot_read_bursts")
			case x < 58:
				r.step(w, opGetTTL, k, 0, 0, 0)
			case x < 63:
				r.step(w, opExists, k, 0, 0, 0)
			case x < 70:
				r.step(w, opDelete, k, 0, 0, 0)
			case x < 74:
				r.step(w, opKeys, 0, 0, 0, 0)
			case x < 76:
				r.step(w, opClear, 0, 0, 0, 0)
			case x < 80:
				r.step(w, opCleanup, 0, 0, 0, 0)
			case x < 88:
				// advance: land on, just before or just after a pending deadline, or a random hop
				adv := pick(rng, []int64{1, 39, 40, 41, 999, 1000, 1001, 5000, 100000})
				var dls []int64
				for _, v := range r.latest {
					if dl := r.deadline[v]; dl > r.now && dl-r.now < 1<<40 {
						dls = append(dls, dl)
					}
				}
				if len(dls) > 0 && rng.Intn(2) == 0 {
					sort.Slice(dls, func(a, b int) bool { return dls[a] < dls[b] })
					adv = dls[rng.Intn(len(dls))] - r.now + int64(rng.Intn(3)-1)
					if adv <= 0 {
						adv = 1
					}
				}
				r.step(w, opAdvance, 0, 0, 0, adv)
			case x < 93:
				r.step(w, opStats, 0, 0, 0, 0)
			default:
				// async batch closed by Sync (only writes inside the batch)
				nb := 1 + rng.Intn(6)
				if r.forceQueue {
					r.hold()
				}
				for j := 0; j < nb; j++ {
					kk := rng.Intn(dom)
					switch y := rng.Intn(10); {
					case y < 7:
						r.step(w, opSetAsync, kk, r.pickTTL(rng), r.pickCost(rng, kk), 0)
					case y < 9:
						r.step(w, opSet, kk, r.pickTTL(rng), r.pickCost(rng, kk), 0)
					default:
						r.step(w, opDelete, kk, 0, 0, 0)
					}
				}
				if rng.Intn(5) == 0 {
					r.step(w, opClear, 0, 0, 0, 0)
				} else {
					r.step(w, opSync, 0, 0, 0, 0)
				}
			}
		}
		r.step(w, opStats, 0, 0, 0, 0)
		r.step(w, opKeys, 0, 0, 0, 0)
		if r.capN > 0 || r.c.Stats().Evictions > 0 {
			sawEv = true
		}
		if r.expN > 0 || r.c.Stats().Expirations > 0 {
			sawExp = true
		}
		r.audit()
		before := runtime.NumGoroutine()
		r.step(w, opClose, 0, 0, 0, 0)
		_ = before
		for i := 0; i < 4; i++ {
			k := rng.Intn(dom)
			r.step(w, pick(rng, []opKind{opSet, opGet, opExists, opDelete, opKeys, opSync, opStats, opSetAsync, opClose}), k, -1, 1, 0)
		}
		if sawEv && sawExp && sawUpd {
			m.nontrivial(fmt.Sprintf("p%d/s%d/m%d/w%d/l%d", policyOf(conf), conf.ShardCount, conf.MaxSize, wmode, lst))
		}
		if t < 3 {
			m.sample(fmt.Sprintf("cfg=%+v listeners=%d weigher=%d ops=%d first=%v", conf, lst, wmode, len(r.ops), r.ops[:min(8, len(r.ops))]))
		}
	}
	kioshun.VerifTraceOn(false)
	if focus == "" || focus == "C09" || focus == "C05" {
		fifoUpgradeProbe(m)
	}
	kioshun.VerifSetClock(false, 0)
	w.Close()
	m.Traces, m.Ops = w.traces, w.ops
	m.write(o.out)
}
