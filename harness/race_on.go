//go:build race

package main

// raceBuild: the thorough tier rebuilds the harness with the race detector, which slows tight loops by an order of magnitude.
const raceBuild = true
