//go:build verif

package main

import (
	"bufio"
	"encoding/json"
	"flag"
	"fmt"
	"math/rand"
	"os"
	"path/filepath"
	"runtime"
	"sort"
	"strconv"
	"strings"
	"sync"
	"time"
)

// toks is one integer-encoded line.
type toks []string

func (t *toks) I(v ...int64) *toks {
	for _, x := range v {
		*t = append(*t, strconv.FormatInt(x, 10))
	}
	return t
}
func (t *toks) U(v uint64) *toks { *t = append(*t, strconv.FormatUint(v, 10)); return t }
func (t *toks) B(b bool) *toks {
	if b {
		return t.I(1)
	}
	return t.I(0)
}
func ints(v ...int64) *toks { t := &toks{}; return t.I(v...) }

// traceWriter writes the model input file and the implementation observation file in lockstep.
type traceWriter struct {
	in, obs   *bufio.Writer
	fin, fobs *os.File
	traces    int
	ops       int
}

func newTraceWriter(dir, name string) *traceWriter {
	must(os.MkdirAll(dir, 0o755))
	fin, err := os.Create(filepath.Join(dir, name+".in"))
	must(err)
	fobs, err := os.Create(filepath.Join(dir, name+".obs"))
	must(err)
	return &traceWriter{in: bufio.NewWriterSize(fin, 1<<20), obs: bufio.NewWriterSize(fobs, 1<<20), fin: fin, fobs: fobs}
}

func (w *traceWriter) T(sid int64, cfg *toks) {
	fmt.Fprintf(w.in, "T %d %s\n", sid, strings.Join(*cfg, " "))
	fmt.Fprintln(w.obs, "T")
	w.traces++
}

func (w *traceWriter) O(op, obs *toks) {
	fmt.Fprintf(w.in, "O %s\n", strings.Join(*op, " "))
	if len(*obs) == 0 {
		fmt.Fprintln(w.obs, "R")
	} else {
		fmt.Fprintf(w.obs, "R %s\n", strings.Join(*obs, " "))
	}
	w.ops++
}

func (w *traceWriter) Close() {
	must(w.in.Flush())
	must(w.obs.Flush())
	w.fin.Close()
	w.fobs.Close()
}

func must(err error) {
	if err != nil {
		fmt.Fprintln(os.Stderr, "harness:", err)
		os.Exit(3)
	}
}

// meta collects what the run covered and what the monitors found.
type meta struct {
	Stream     string           `json:"stream"`
	Seed       int64            `json:"seed"`
	Traces     int              `json:"traces"`
	Ops        int              `json:"ops"`
	Dist       map[string]int64 `json:"distribution"`
	Nontrivial int              `json:"distinct_nontrivial"`
	Rule       string           `json:"rule"`
	Samples    []string         `json:"samples"`
	Violations []violation      `json:"violations"`
	Known      []string         `json:"known_findings"`
	distinct   map[string]bool
}

type violation struct {
	Property string `json:"property"`
	What     string `json:"what"`
	Replay   string `json:"replay"`
}

func newMeta(stream string, seed int64) *meta {
	m := &meta{Stream: stream, Seed: seed, Dist: map[string]int64{}, distinct: map[string]bool{}}
	curMeta = m
	return m
}

// watchdog: an operation of the implementation that does not return is itself a finding
// (deadlock / livelock). The harness arms the watchdog around every call into /repo.
var (
	curMeta   *meta
	curOut    string
	curFocus  string
	wdMu      sync.Mutex
	wdArmed   time.Time
	wdWhat    string
	wdStarted bool
)

// watchLimit: how long one watched call or scenario may take before it is reported as a hang. Under the race detector
// (thorough tier) everything is an order of magnitude slower.
func watchLimit() time.Duration {
	if raceBuild {
		return 120 * time.Second
	}
	if runtime.GOMAXPROCS(0) <= 2 {
		// one or two Ps: scenarios with a dozen busy goroutines and sleeping listeners advance one preemption quantum at a time
		return 90 * time.Second
	}
	return 15 * time.Second
}

func watch(what string) {
	wdMu.Lock()
	wdArmed, wdWhat = time.Now(), what
	if !wdStarted {
		wdStarted = true
		go func() {
			for {
				time.Sleep(200 * time.Millisecond)
				wdMu.Lock()
				armed, w := wdArmed, wdWhat
				wdMu.Unlock()
				if !armed.IsZero() && time.Since(armed) > watchLimit() {
					prop := curFocus
					if prop == "" {
						prop = "C07"
					}
					// all goroutine stacks, for whoever has to tell a deadlock from a slow machine
					stk := make([]byte, 1<<20)
					stk = stk[:runtime.Stack(stk, true)]
					os.Stderr.Write(stk)
					if curOut != "" {
						os.WriteFile(curOut+"/watchdog.stacks.txt", stk, 0o644)
					}
					if curMeta != nil {
						curMeta.violate(prop, "the implementation did not return from "+w+fmt.Sprintf(" within %v (deadlock or livelock)", watchLimit()), w)
						if curFocus == "" {
							for _, p := range []string{"C01", "C02", "C03", "C04", "C05", "C06", "C08", "C09", "C10", "C11", "C12", "C13", "C14", "C15", "C17", "C20"} {
								curMeta.violate(p, "the implementation did not return from "+w+fmt.Sprintf(" within %v (deadlock or livelock)", watchLimit()), w)
							}
						}
						curMeta.write(curOut)
					}
					os.Exit(0)
				}
			}
		}()
	}
	wdMu.Unlock()
}

func unwatch() {
	wdMu.Lock()
	wdArmed = time.Time{}
	wdMu.Unlock()
}
func (m *meta) count(k string)           { m.Dist[k]++ }
func (m *meta) countN(k string, n int64) { m.Dist[k] += n }
func (m *meta) nontrivial(sig string) {
	if !m.distinct[sig] {
		m.distinct[sig] = true
		m.Nontrivial++
	}
}
func (m *meta) sample(s string) {
	if len(m.Samples) < 6 {
		m.Samples = append(m.Samples, s)
	}
}

var violMu sync.Mutex

func (m *meta) violate(prop, what, replay string) {
	violMu.Lock()
	defer violMu.Unlock()
	// capped per property, so that a flood of reports about one property cannot hide the first report about another
	n := 0
	for _, v := range m.Violations {
		if v.Property == prop {
			n++
		}
	}
	if n < 25 {
		m.Violations = append(m.Violations, violation{prop, what, replay})
	}
}
func (m *meta) known(s string) {
	for _, k := range m.Known {
		if k == s {
			return
		}
	}
	m.Known = append(m.Known, s)
}
func (m *meta) write(dir string) {
	keys := make([]string, 0, len(m.Dist))
	for k := range m.Dist {
		keys = append(keys, k)
	}
	sort.Strings(keys)
	b, err := json.MarshalIndent(m, "", " ")
	must(err)
	must(os.MkdirAll(dir, 0o755))
	must(os.WriteFile(filepath.Join(dir, m.Stream+".meta.json"), b, 0o644))
}

// common flags
type opts struct {
	seed   int64
	n      int
	out    string
	tier   string
	replay string
	focus  string
}

func parseOpts(args []string) opts {
	fs := flag.NewFlagSet("stream", flag.ExitOnError)
	var o opts
	fs.Int64Var(&o.seed, "seed", 1, "PRNG seed")
	fs.IntVar(&o.n, "n", 100, "number of traces")
	fs.StringVar(&o.out, "out", "out", "output directory")
	fs.StringVar(&o.tier, "tier", "quick", "quick|thorough")
	fs.StringVar(&o.replay, "replay", "", "replay file")
	fs.StringVar(&o.focus, "focus", "", "property whose monitors are reported (empty: all)")
	must(fs.Parse(args))
	curOut, curFocus = o.out, o.focus
	return o
}

func newRand(seed int64, stream string) *rand.Rand {
	h := int64(1469598103934665603)
	for _, c := range stream {
		h = (h ^ int64(c)) * 1099511628211
	}
	return rand.New(rand.NewSource(seed ^ h))
}

func pick[T any](r *rand.Rand, xs []T) T { return xs[r.Intn(len(xs))] }
