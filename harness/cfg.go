//go:build verif

package main

import (
	"errors"
	"fmt"
	"math"
	"math/rand"
	"runtime"
	"strings"
	"time"

	"github.com/unkn0wn-root/kioshun"
)

// Stream "cfg" (C16): configurations -> Validate / New, compared with ConfigModel,
// plus the property's own monitors evaluated on the implementation.

const sidCfg = 16

func cfgToks(c kioshun.Config, ncpu int) *toks {
	t := &toks{}
	t.I(c.MaxSize, c.MaxCost, int64(c.ShardCount), int64(c.CleanupInterval), int64(c.DefaultTTL),
		int64(c.EvictionPolicy)).B(c.StatsEnabled).I(int64(c.ProbationRatio), int64(c.GhostRatio),
		int64(c.CostAdmission), int64(c.WriteBufferSize), int64(c.WriteBatchSize), int64(ncpu))
	return t
}

func cfgString(c kioshun.Config) string { return fmt.Sprintf("%+v", c) }

// allocatable: New may be called without huge allocations.
func cfgAllocatable(c kioshun.Config) bool {
	// a bounded cache clamps its shard count by its budgets (at most 256 shards), whatever ShardCount asks for
	bounded := (c.MaxSize > 0 || c.MaxCost > 0) && c.ShardCount > 0
	return c.MaxSize <= 200000 && (c.ShardCount <= 2048 || bounded) && c.WriteBufferSize <= 1<<14 && c.WriteBatchSize <= 1<<14
}

func randConfig(r *rand.Rand) kioshun.Config {
	sizes := []int64{-1, 0, 0, 1, 2, 3, 5, 7, 8, 64, 100, 255, 256, 257, 1000, 1003, 4097, 100000, 1 << 31, 1 << 40, 1 << 62, math.MaxInt64}
	costs := []int64{-1, 0, 0, 0, 1, 2, 3, 7, 50, 255, 256, 257, 1001, 1 << 33, math.MaxInt64}
	shards := []int{-1, 0, 0, 0, 1, 2, 3, 5, 8, 12, 16, 100, 255, 256, 257, 300, 512, 1000, 1024, 2048}
	durs := []time.Duration{-2, -1, 0, 0, 1, time.Second, time.Hour, math.MaxInt64}
	pols := []kioshun.EvictionPolicy{-1, 0, 0, 1, 2, 3, 4, 4, 5}
	ratios := []uint8{0, 0, 1, 2, 50, 60, 99, 100, 101, 255}
	adm := []kioshun.CostAdmission{-1, 0, 0, 0, 1, 2, 3}
	bufs := []int{-1, 0, 0, 1, 2, 3, 4, 5, 64, 100, 256, 1000}
	c := kioshun.Config{
		MaxSize: pick(r, sizes), MaxCost: pick(r, costs), ShardCount: pick(r, shards),
		CleanupInterval: pick(r, durs), DefaultTTL: pick(r, durs), EvictionPolicy: pick(r, pols),
		StatsEnabled: r.Intn(2) == 0, ProbationRatio: pick(r, ratios), GhostRatio: pick(r, ratios),
		CostAdmission: pick(r, adm), WriteBufferSize: pick(r, bufs), WriteBatchSize: pick(r, bufs),
	}
	// most configurations should be valid: repair each invalid field with probability 0.85
	fix := func() bool { return r.Intn(100) < 85 }
	if c.MaxSize < 0 && fix() {
		c.MaxSize = int64(r.Intn(5000))
	}
	if c.MaxCost < 0 && fix() {
		c.MaxCost = int64(r.Intn(300))
	}
	if c.ShardCount < 0 && fix() {
		c.ShardCount = r.Intn(40)
	}
	if c.CleanupInterval < 0 && fix() {
		c.CleanupInterval = 0
	}
	if c.DefaultTTL < -1 && fix() {
		c.DefaultTTL = -1
	}
	if (c.EvictionPolicy < 0 || c.EvictionPolicy > 4) && fix() {
		c.EvictionPolicy = kioshun.EvictionPolicy(r.Intn(5))
	}
	if c.ProbationRatio > 100 && fix() {
		c.ProbationRatio = uint8(r.Intn(101))
	}
	if c.GhostRatio > 100 && fix() {
		c.GhostRatio = uint8(r.Intn(101))
	}
	if (c.CostAdmission < 0 || c.CostAdmission > 2) && fix() {
		c.CostAdmission = kioshun.CostAdmission(r.Intn(3))
	}
	if c.WriteBufferSize < 0 && fix() {
		c.WriteBufferSize = r.Intn(70)
	}
	if c.WriteBatchSize < 0 && fix() {
		c.WriteBatchSize = r.Intn(70)
	}
	if (c.EvictionPolicy == 0 || c.EvictionPolicy == 4) && c.MaxSize == 0 && c.MaxCost > 0 && fix() {
		c.MaxSize = int64(1 + r.Intn(3000))
	}
	// CleanupInterval > 0 starts a ticker goroutine; keep it long
	if c.CleanupInterval > 0 && c.CleanupInterval < time.Hour {
		c.CleanupInterval = time.Hour
	}
	return c
}

func isPow2(n int) bool { return n > 0 && n&(n-1) == 0 }

// newObs builds the implementation's observation line for mode 1 and runs the C16 monitors.
func cfgNewObs(c kioshun.Config, m *meta, replay string) *toks {
	obs := &toks{}
	verr := c.Validate()
	before := runtime.NumGoroutine()
	var cache *kioshun.Cache[int, int]
	var err error
	func() {
		defer func() {
			if p := recover(); p != nil {
				err = fmt.Errorf("panic: %v", p)
			}
		}()
		cache, err = kioshun.New[int, int](c)
	}()
	if err != nil && strings.HasPrefix(err.Error(), "panic:") {
		m.violate("C16", "New panicked on "+cfgString(c)+": "+err.Error(), replay)
		return obs.I(-2)
	}
	if (verr == nil) != (err == nil) {
		m.violate("C16", fmt.Sprintf("New/Validate disagree on %s: validate=%v new=%v", cfgString(c), verr, err), replay)
	}
	if err != nil {
		if !errors.Is(err, kioshun.ErrInvalidConfig) {
			m.violate("C16", "New error does not wrap ErrInvalidConfig: "+cfgString(c), replay)
		}
		time.Sleep(time.Millisecond)
		if after := runtime.NumGoroutine(); after > before {
			time.Sleep(20 * time.Millisecond)
			if after = runtime.NumGoroutine(); after > before {
				m.violate("C16", fmt.Sprintf("refused New left %d goroutines: %s", after-before, cfgString(c)), replay)
			}
		}
		m.count("new_rejected")
		return obs.I(0)
	}
	defer cache.Close()
	m.count("new_accepted")
	n := cache.VerifShards()
	st := cache.Stats()
	i0 := cache.VerifShardInfo(0)
	track := c.MaxCost > 0 || c.CostAdmission != kioshun.CostAdmissionFrequency
	obs.I(1, int64(n), st.Capacity, st.MaxCost, i0.QueueCap, i0.BatchCap).B(track)
	var sumCap, sumCost int64
	for i := 0; i < n; i++ {
		inf := cache.VerifShardInfo(i)
		sumCap += inf.Cap
		sumCost += inf.CostCap
		obs.I(inf.Cap, inf.CostCap, inf.TabSlots).B(inf.HasSieve)
		if inf.HasSieve {
			obs.I(inf.ProbationCap, inf.MainCap, inf.GhostCap, inf.MinProb, inf.MaxProb, inf.AdaptStep,
				inf.SketchWords, inf.SketchResetAt, inf.DoorWords, inf.GhostRing, inf.GhostSlots, inf.MGhostRing)
			if inf.ProbationCap < 1 || inf.ProbationCap > inf.Cap || inf.MainCap != inf.Cap-inf.ProbationCap ||
				(inf.Cap >= 2 && inf.MainCap < 1) || (inf.MainCap > 0 && inf.GhostCap < 1) {
				m.violate("C16", fmt.Sprintf("ill-formed sieve segments %+v for %s", inf, cfgString(c)), replay)
			}
		}
		if c.MaxSize > 0 && inf.Cap < 1 {
			m.violate("C16", fmt.Sprintf("shard %d entry budget %d < 1: %s", i, inf.Cap, cfgString(c)), replay)
		}
		if c.MaxCost > 0 && inf.CostCap < 1 {
			m.violate("C16", fmt.Sprintf("shard %d weight budget %d < 1: %s", i, inf.CostCap, cfgString(c)), replay)
		}
	}
	// the property's own oracle
	if !isPow2(n) {
		m.violate("C16", fmt.Sprintf("shard count %d not a power of two: %s", n, cfgString(c)), replay)
	}
	if (c.ShardCount == 0 || c.MaxSize > 0 || c.MaxCost > 0) && n > 256 {
		m.violate("C16", fmt.Sprintf("shard count %d > 256: %s", n, cfgString(c)), replay)
	}
	if c.MaxSize > 0 && (int64(n) > c.MaxSize || sumCap != c.MaxSize) {
		m.violate("C16", fmt.Sprintf("entry budgets: shards=%d sum=%d MaxSize=%d: %s", n, sumCap, c.MaxSize, cfgString(c)), replay)
	}
	if c.MaxCost > 0 && (int64(n) > c.MaxCost || sumCost != c.MaxCost) {
		m.violate("C16", fmt.Sprintf("weight budgets: shards=%d sum=%d MaxCost=%d: %s", n, sumCost, c.MaxCost, cfgString(c)), replay)
	}
	if c.MaxSize > 0 && sumCap > c.MaxSize {
		m.violate("C03", fmt.Sprintf("the shards' entry budgets add up to %d, more than MaxSize %d (%d shards): each shard may fill its own budget, so the cache can hold more entries than configured: %s", sumCap, c.MaxSize, n, cfgString(c)), replay)
	}
	if c.MaxCost > 0 && sumCost > c.MaxCost {
		m.violate("C03", fmt.Sprintf("the shards' weight budgets add up to %d, more than MaxCost %d (%d shards): %s", sumCost, c.MaxCost, n, cfgString(c)), replay)
	}
	if c.MaxSize == 0 && sumCap != 0 || c.MaxCost == 0 && sumCost != 0 {
		m.violate("C16", "budget set on an unlimited dimension: "+cfgString(c), replay)
	}
	if n > 1 {
		m.nontrivial(fmt.Sprintf("n%d/%d/%d/p%d", n, c.MaxSize%int64(n), c.MaxCost%int64(n), c.EvictionPolicy))
	}
	return obs
}

func streamCfg(o opts) {
	r := newRand(o.seed, "cfg")
	m := newMeta("cfg", o.seed)
	m.Rule = "configurations drawn per field from boundary values {-1,0,1,2,3,255,256,257,2^31,2^62,max} with invalid fields repaired with p=0.85, plus a directed list; non-trivial = accepted by New with more than one shard, distinct by (shards, MaxSize mod shards, MaxCost mod shards, policy)"
	w := newTraceWriter(o.out, "cfg")
	ncpu := runtime.NumCPU()
	w.T(sidCfg, &toks{})
	directed := []kioshun.Config{
		{}, kioshun.DefaultConfig(),
		// huge explicit shard counts on BOUNDED caches: clamped by the budgets long before any rounding could wrap
		{MaxSize: 100, ShardCount: math.MaxInt}, {MaxSize: 10, MaxCost: 50, ShardCount: 1<<62 + 1}, {MaxCost: 9, ShardCount: math.MaxInt - 1, EvictionPolicy: kioshun.LFU},
		{MaxSize: 300, ShardCount: 1 << 62}, {MaxSize: 1000, ShardCount: 1<<61 + 7, EvictionPolicy: kioshun.FIFO},
		{MaxSize: 1003, MaxCost: 77, ShardCount: 12, DefaultTTL: -1, CostAdmission: 1, WriteBufferSize: 3},
		{MaxSize: 100, MaxCost: 7}, {MaxSize: 7, MaxCost: 100}, {MaxSize: 100000, ShardCount: 1000},
		{MaxSize: 5000, ShardCount: 300}, {ShardCount: 1024, EvictionPolicy: kioshun.LRU},
		{MaxSize: 1, EvictionPolicy: kioshun.SieveTinyLFU}, {MaxSize: 2}, {MaxSize: 3, ProbationRatio: 100},
		{MaxCost: 5, EvictionPolicy: kioshun.LRU}, {MaxCost: 5}, {MaxSize: 255, ShardCount: 256},
		{MaxSize: 257, ShardCount: 257}, {MaxSize: 512, MaxCost: 300, ShardCount: 512},
		{WriteBufferSize: 1}, {WriteBufferSize: 3, WriteBatchSize: 1}, {MaxSize: 99, GhostRatio: 1},
		{MaxSize: 200, ProbationRatio: 60}, {MaxSize: 200, ProbationRatio: 99},
	}
	run := func(c kioshun.Config) {
		replay := cfgString(c)
		// mode 0: Validate only (any magnitude)
		op := ints(0)
		*op = append(*op, *cfgToks(c, ncpu)...)
		ok := c.Validate() == nil
		w.O(op, (&toks{}).B(ok))
		if ok {
			m.count("validate_ok")
		} else {
			m.count("validate_rejected")
		}
		if ok && !cfgAllocatable(c) {
			m.count("valid_but_too_large_to_build")
			return
		}
		op1 := ints(1)
		*op1 = append(*op1, *cfgToks(c, ncpu)...)
		w.O(op1, cfgNewObs(c, m, replay))
		m.sample(replay)
	}
	for _, c := range directed {
		run(c)
	}
	for i := 0; i < o.n; i++ {
		run(randConfig(r))
	}
	// a zero ratio means its documented default and leaves the other ratio alone: the cache built with one ratio left
	// at zero has the segments of the cache built with that ratio's default written out
	{
		def := kioshun.DefaultConfig()
		for i := 0; i < 40; i++ {
			base := kioshun.Config{MaxSize: int64(20 + r.Intn(2000)), ShardCount: pick(r, []int{1, 2, 4}), EvictionPolicy: pick(r, []kioshun.EvictionPolicy{kioshun.SieveTinyLFU, kioshun.DefaultEvictionPolicy})}
			a, b := base, base
			if i%2 == 0 {
				a.ProbationRatio, b.ProbationRatio = uint8(1+r.Intn(100)), 0
				b.ProbationRatio = a.ProbationRatio
				a.GhostRatio, b.GhostRatio = 0, def.GhostRatio
			} else {
				a.GhostRatio = uint8(1 + r.Intn(100))
				b.GhostRatio = a.GhostRatio
				a.ProbationRatio, b.ProbationRatio = 0, def.ProbationRatio
			}
			ca, ea := kioshun.New[int, int](a)
			cb, eb := kioshun.New[int, int](b)
			if ea != nil || eb != nil || def.GhostRatio == 0 || def.ProbationRatio == 0 {
				continue
			}
			for sh := 0; sh < ca.VerifShards() && sh < cb.VerifShards(); sh++ {
				ia, ib := ca.VerifShardInfo(sh), cb.VerifShardInfo(sh)
				if ia.ProbationCap != ib.ProbationCap || ia.MainCap != ib.MainCap || ia.GhostCap != ib.GhostCap {
					m.violate("C16", fmt.Sprintf("%s builds segments (probation %d, main %d, ghost %d) on shard %d, but with the zero ratio replaced by its documented default (%s) they are (%d, %d, %d): a zero-valued optional field behaves as its default", cfgString(a), ia.ProbationCap, ia.MainCap, ia.GhostCap, sh, cfgString(b), ib.ProbationCap, ib.MainCap, ib.GhostCap), cfgString(a))
					break
				}
			}
			ca.Close()
			cb.Close()
			m.count("ratio_default_pairs")
		}
	}
	// single-fault configurations: an otherwise valid configuration (every policy) with exactly one field out of range
	for i := 0; i < o.n/2+20; i++ {
		var c kioshun.Config
		for tries := 0; tries < 50; tries++ {
			c = randConfig(r)
			if c.Validate() == nil {
				break
			}
		}
		if c.Validate() != nil {
			continue
		}
		c.EvictionPolicy = kioshun.EvictionPolicy(i % 5)
		if (c.EvictionPolicy == 0 || c.EvictionPolicy == 4) && c.MaxSize == 0 && c.MaxCost > 0 {
			c.MaxSize = 100
		}
		switch (i / 5) % 12 {
		case 0:
			c.MaxSize = pick(r, []int64{-1, -100, math.MinInt64})
		case 1:
			c.MaxCost = pick(r, []int64{-1, -7, math.MinInt64})
		case 2:
			c.ShardCount = pick(r, []int{-1, -64})
		case 3:
			c.CleanupInterval = pick(r, []time.Duration{-1, -time.Hour})
		case 4:
			c.DefaultTTL = pick(r, []time.Duration{-2, -time.Hour})
		case 5:
			c.EvictionPolicy = pick(r, []kioshun.EvictionPolicy{-1, 5, 100})
		case 6:
			c.ProbationRatio = pick(r, []uint8{101, 255})
		case 7:
			c.GhostRatio = pick(r, []uint8{101, 200})
		case 8:
			c.CostAdmission = pick(r, []kioshun.CostAdmission{-1, 3})
		case 9:
			c.WriteBufferSize = -1 - r.Intn(5)
		case 10:
			c.WriteBatchSize = -1 - r.Intn(5)
		case 11:
			// nothing injected: the valid base itself
		}
		m.count("single_fault_configs")
		// oracle by construction: the base is valid, so the configuration is invalid iff a fault was injected
		injected := (i/5)%12 != 11
		if err := c.Validate(); (err != nil) != injected {
			m.violate("C16", fmt.Sprintf("a valid configuration with exactly one field put out of range (fault class %d, 11 = none): Validate() = %v on %s", (i/5)%12, err, cfgString(c)), cfgString(c))
		} else if err != nil && !errors.Is(err, kioshun.ErrInvalidConfig) {
			m.violate("C16", fmt.Sprintf("Validate error %v does not wrap ErrInvalidConfig: %s", err, cfgString(c)), cfgString(c))
		}
		run(c)
	}
	// known finding F9: rounding of a shard count above 2^62 wraps
	func() {
		defer func() {
			if p := recover(); p != nil {
				m.known("KNOWN-FINDING: property=C16 New(Config{ShardCount: 1<<62+1}) panics instead of succeeding or returning ErrInvalidConfig (" + fmt.Sprint(p) + ")")
			}
		}()
		c, err := kioshun.New[int, int](kioshun.Config{ShardCount: 1<<62 + 1})
		if err == nil {
			c.Close()
		}
	}()
	w.Close()
	m.Traces, m.Ops = w.traces, w.ops
	m.write(o.out)
}
