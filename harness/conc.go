//go:build verif

package main

import (
	"errors"
	"fmt"
	"math/rand"
	"runtime"
	"sort"
	"sync"
	"sync/atomic"
	"time"

	"github.com/unkn0wn-root/kioshun"
)

// Stream "conc": free-running goroutines against the real cache (T-stress). Histories are
// judged by monitors here and, per key, by the Coq-verified linearizability checker
// (windows written to conc.in, expected verdict 1 per line in conc.obs). This is
// conformance evidence and failing-input search for the LTS theorems, never a proof.

const (
	sidLin      = 2
	sidLinChain = 21
)

// big is a multi-word value: every field is derived from one id, so a torn read is visible.
type big struct {
	id, a, b, c uint64
	ttlClass    int64
	pad         [24]uint64
}

func mkBig(id uint64, ttl int64) big {
	v := big{id: id, a: id * 3, b: ^id, c: id ^ 0x5555555555555555, ttlClass: ttl}
	for i := range v.pad {
		v.pad[i] = id + uint64(i)
	}
	return v
}
func (b big) ok() bool {
	for i := range b.pad {
		if b.pad[i] != b.id+uint64(i) {
			return false
		}
	}
	return b.a == b.id*3 && b.b == ^b.id && b.c == b.id^0x5555555555555555
}

type call struct {
	inv, ret int64
	kind     int // 1 set 2 get 3 delete 4 exists
	key      int
	a, b     int64
}

type hist struct {
	mu    sync.Mutex
	calls []call
}

func (h *hist) add(c call) { h.mu.Lock(); h.calls = append(h.calls, c); h.mu.Unlock() }

// split one key's calls at quiescent points and emit them, as one chain per key, for the verified
// exact windowed checker (lin_chain_step: the possible register contents are carried across cuts)
func emitWindows(w *traceWriter, m *meta, focus string, key int, cs []call, earlier map[int64]bool, tag string) {
	sort.Slice(cs, func(i, j int) bool { return cs[i].inv < cs[j].inv })
	var wins [][]call
	var win []call
	var maxRet int64
	for _, c := range cs {
		if len(win) > 0 && c.inv > maxRet {
			wins = append(wins, win)
			win = nil
		}
		win = append(win, c)
		if c.ret > maxRet {
			maxRet = c.ret
		}
	}
	if len(win) > 0 {
		wins = append(wins, win)
	}
	w.T(sidLinChain, &toks{})
	for _, wn := range wins {
		if len(wn) > 14 {
			m.count("window_too_large_chain_cut")
			return
		}
		op := &toks{}
		op.I(0, 0, int64(len(wn)))
		for _, c := range wn {
			op.I(c.inv, c.ret, int64(c.kind), c.a, c.b)
		}
		w.O(op, ints(1))
		m.count("lin_windows")
	}
}

// goCorollaries checks the property's own three consequences directly on a key's history.
func goCorollaries(m *meta, key int, cs []call, ctx string) {
	sets := map[int64]call{}
	for _, c := range cs {
		if c.kind == 1 && c.b == 0 {
			sets[c.a] = c
		}
	}
	for _, g := range cs {
		if g.kind != 2 || g.a == 0 {
			continue
		}
		s1, ok := sets[g.b]
		if !ok {
			m.violate("C02", fmt.Sprintf("%s: Get(key %d) returned value %d that no successful Set wrote", ctx, key, g.b), ctx)
			continue
		}
		if s1.inv > g.ret {
			m.violate("C02", fmt.Sprintf("%s: Get(key %d) returned value %d before its Set was invoked", ctx, key, g.b), ctx)
		}
		for _, o := range cs {
			// an operation strictly between the Set's return and the Get's invocation that overwrites or deletes
			if o.inv > s1.ret && o.ret < g.inv {
				if o.kind == 1 && o.b == 0 && o.a != g.b {
					m.violate("C02", fmt.Sprintf("%s: Get(key %d)@[%d,%d] returned %d although Set(%d)@[%d,%d] completed after Set(%d)@[%d,%d] and before the Get began", ctx, key, g.inv, g.ret, g.b, o.a, o.inv, o.ret, g.b, s1.inv, s1.ret), ctx)
				}
				if o.kind == 3 {
					m.violate("C02", fmt.Sprintf("%s: Get(key %d)@[%d,%d] returned %d although Delete@[%d,%d] completed after its Set@[%d,%d] and before the Get began", ctx, key, g.inv, g.ret, g.b, o.inv, o.ret, s1.inv, s1.ret), ctx)
				}
			}
		}
	}
}

type stressCfg struct {
	conf               kioshun.Config
	workers, keys, ops int
	listeners, reent   bool
	async              bool
}

func runStress(m *meta, w *traceWriter, rng *rand.Rand, sc stressCfg, round int) {
	settleBase := [2]int64{kioshun.VerifStagedCount(), kioshun.VerifDeliveredCount()}
	ctx := fmt.Sprintf("stress round %d cfg %+v workers=%d keys=%d", round, sc.conf, sc.workers, sc.keys)
	var clock atomic.Int64
	var notMu sync.Mutex
	notified := map[uint64]int{}
	evictCalls := 0
	capNotifs := 0
	written := &sync.Map{} // id -> key
	var c *kioshun.Cache[int, big]
	var opts []kioshun.Option[int, big]
	if sc.listeners {
		opts = append(opts, kioshun.WithOnRemove(func(k int, v big, r kioshun.RemovalReason) {
			notMu.Lock()
			notified[v.id]++
			if r == kioshun.RemovedCapacity {
				capNotifs++
			}
			notMu.Unlock()
			if !v.ok() {
				m.violate("C11", ctx+": removal listener received a torn value", ctx)
			}
			if sc.reent && c != nil {
				c.Get(k)
				if v.id%7 == 0 && v.id < 1<<40 {
					written.Store(v.id+1<<40, k+1000)
					c.Set(k+1000, mkBig(v.id+1<<40, -1), kioshun.NoExpiration)
				}
			}
		}), kioshun.WithOnEvict(func(k int, v big) { notMu.Lock(); evictCalls++; notMu.Unlock() }))
	}
	var err error
	c, err = kioshun.New[int, big](sc.conf, opts...)
	must(err)
	var idc atomic.Uint64
	hists := make([]*hist, sc.keys)
	for i := range hists {
		hists[i] = &hist{}
	}
	var wg sync.WaitGroup
	watch(ctx)
	for g := 0; g < sc.workers; g++ {
		wg.Add(1)
		r := rand.New(rand.NewSource(rng.Int63()))
		go func() {
			defer wg.Done()
			defer func() {
				if p := recover(); p != nil {
					m.violate("C11", fmt.Sprintf("%s: panic in a public call: %v", ctx, p), ctx)
				}
			}()
			for i := 0; i < sc.ops; i++ {
				k := r.Intn(sc.keys)
				switch x := r.Intn(100); {
				case x < 35:
					id := idc.Add(1)
					ttl := pick(r, []int64{-1, -1, int64(time.Hour), int64(2 * time.Hour)})
					v := mkBig(id, ttl)
					inv := clock.Add(1)
					var e error
					if sc.async && r.Intn(2) == 0 {
						e = c.SetAsync(k, v, time.Duration(ttl))
						// an async write is only "possibly visible"; it is recorded as a Set whose
						// return is the next Sync; to keep histories exact only synchronous Sets are recorded
						clock.Add(1)
						if e == nil {
							written.Store(id, -k-1)
						}
						continue
					} else if r.Intn(6) == 0 {
						e = c.SetWithCallback(k, v, time.Duration(ttl), func(int, big) {})
					} else {
						e = c.Set(k, v, time.Duration(ttl))
					}
					ret := clock.Add(1)
					if e == nil {
						written.Store(id, k)
					}
					eb := int64(0)
					if e != nil {
						eb = 1
					}
					hists[k].add(call{inv, ret, 1, k, int64(id), eb})
				case x < 75:
					inv := clock.Add(1)
					var v big
					var ok bool
					var ttl time.Duration
					if r.Intn(3) == 0 {
						v, ttl, ok = c.GetWithTTL(k)
						if ok {
							if (v.ttlClass < 0) != (ttl == -1) || (v.ttlClass > 0 && (int64(ttl) > v.ttlClass || int64(ttl) < v.ttlClass-int64(time.Minute))) {
								m.violate("C11", fmt.Sprintf("%s: GetWithTTL(key %d) paired value of ttl class %d with remaining %d (mixture of two writes)", ctx, k, v.ttlClass, ttl), ctx)
								m.violate("C05", fmt.Sprintf("%s: GetWithTTL(key %d) reports remaining %d for an entry written with TTL %d", ctx, k, ttl, v.ttlClass), ctx)
							}
						}
					} else {
						v, ok = c.Get(k)
					}
					ret := clock.Add(1)
					if ok && !v.ok() {
						m.violate("C11", fmt.Sprintf("%s: Get(key %d) returned a torn value %+v", ctx, k, v), ctx)
					}
					fb := int64(0)
					if ok {
						fb = 1
					}
					hists[k].add(call{inv, ret, 2, k, fb, int64(v.id)})
				case x < 88:
					inv := clock.Add(1)
					ok := c.Delete(k)
					ret := clock.Add(1)
					ob := int64(0)
					if ok {
						ob = 1
					}
					hists[k].add(call{inv, ret, 3, k, ob, 0})
				case x < 94:
					c.Exists(k)
				case x < 96:
					c.Keys()
				case x < 98:
					c.Stats()
					c.Size()
				default:
					c.Cleanup()
				}
			}
		}()
	}
	wg.Wait()
	unwatch()
	watch(ctx + " Sync")
	c.Sync()
	// the notifier (and a re-entrant listener writing from it) must settle before the state is quiescent
	for i, stable, lastSt := 0, 0, int64(-1); i < 5000 && stable < 3; i++ {
		c.VerifFlushRemovals()
		c.Sync()
		st := kioshun.VerifStagedCount()*1000003 + c.Size()
		// stable, and every staged removal has been handed to the listeners (none still in the notifier's hand)
		if st == lastSt && kioshun.VerifDeliveredCount()-settleBase[1] >= kioshun.VerifStagedCount()-settleBase[0] {
			stable++
		} else {
			stable, lastSt = 0, st
		}
		time.Sleep(200 * time.Microsecond)
	}
	unwatch()
	// async writes make per-key histories inexact: only check them when the run had none
	if !sc.async {
		earlier := map[int64]bool{}
		for k, h := range hists {
			goCorollaries(m, k, h.calls, ctx)
			emitWindows(w, m, "", k, h.calls, earlier, ctx)
		}
	}
	// quiescent monitors
	for i := 0; i < c.VerifShards(); i++ {
		inf := c.VerifShardInfo(i)
		if inf.Cap > 0 && inf.Size > inf.Cap {
			m.violate("C03", fmt.Sprintf("%s: after quiescence shard %d holds %d entries, budget %d", ctx, i, inf.Size, inf.Cap), ctx)
		}
		if inf.QueueHead != inf.QueueTail {
			m.violate("C04", fmt.Sprintf("%s: after Sync shard %d ring still holds %d commands", ctx, i, inf.QueueHead-inf.QueueTail), ctx)
		}
	}
	if err := c.VerifCheckInvariants(); err != nil {
		m.violate("C11", ctx+": internal structure damaged: "+err.Error(), ctx)
		m.violate("C10", ctx+": internal structures disagree: "+err.Error(), ctx)
	}
	res := 0
	for i := 0; i < c.VerifShards(); i++ {
		for _, k := range c.VerifShardKeys(i) {
			v, _, _, ok := c.VerifPeek(k)
			if !ok {
				continue
			}
			res++
			if !v.ok() {
				m.violate("C11", ctx+": resident value is torn", ctx)
			}
			if kk, was := written.Load(v.id); !was {
				m.violate("C01", fmt.Sprintf("%s: resident value id %d was never written", ctx, v.id), ctx)
			} else if kk.(int) != k && kk.(int) != -k-1 && k < 1000 {
				m.violate("C01", fmt.Sprintf("%s: value written to key %v found under key %d", ctx, kk, k), ctx)
			}
			notMu.Lock()
			n := notified[v.id]
			notMu.Unlock()
			if n > 0 {
				m.violate("C06", fmt.Sprintf("%s: value id %d was reported removed but is still readable", ctx, v.id), ctx)
			}
		}
	}
	if c.Size() != int64(res) {
		m.violate("C10", fmt.Sprintf("%s: Size()=%d but %d entries resident at quiescence", ctx, c.Size(), res), ctx)
	}
	before := runtime.NumGoroutine()
	watch(ctx + " Close")
	c.Close()
	c.Close()
	unwatch()
	time.Sleep(2 * time.Millisecond)
	notMu.Lock()
	for id, n := range notified {
		if n > 1 {
			m.violate("C06", fmt.Sprintf("%s: value id %d notified %d times", ctx, id, n), ctx)
		}
		if _, was := written.Load(id); !was && id < 1<<40 {
			m.violate("C06", fmt.Sprintf("%s: notification for value id %d that was never written", ctx, id), ctx)
		}
	}
	if sc.listeners && evictCalls != capNotifs {
		m.violate("C06", fmt.Sprintf("%s: OnEvict called %d times, %d capacity notifications", ctx, evictCalls, capNotifs), ctx)
	}
	notMu.Unlock()
	st := c.Stats()
	if sc.conf.StatsEnabled && sc.listeners && !sc.reent && st.Evictions != int64(capNotifs) {
		m.violate("C10", fmt.Sprintf("%s: Stats.Evictions=%d, capacity notifications %d", ctx, st.Evictions, capNotifs), ctx)
	}
	// after Close
	if _, ok := c.Get(0); ok || c.Exists(0) || c.Delete(0) || len(c.Keys()) != 0 {
		m.violate("C08", ctx+": lookups still succeed after Close", ctx)
	}
	if e := c.Set(0, mkBig(1, -1), 0); !errors.Is(e, kioshun.ErrCacheClosed) {
		m.violate("C08", ctx+": Set after Close did not fail with ErrCacheClosed", ctx)
	}
	if e := c.SetAsync(0, mkBig(1, -1), 0); !errors.Is(e, kioshun.ErrCacheClosed) {
		m.violate("C08", ctx+": SetAsync after Close did not fail with ErrCacheClosed", ctx)
	}
	if e := c.Sync(); e == nil {
		m.violate("C08", ctx+": Sync after Close succeeded", ctx)
	}
	deadline := time.Now().Add(2 * time.Second)
	for runtime.NumGoroutine() > before-c.VerifShards() && time.Now().Before(deadline) {
		time.Sleep(time.Millisecond)
	}
	_ = before
	m.count("stress_rounds")
	m.countN("stress_calls", int64(sc.workers*sc.ops))
}

// asyncOrder (C04): one producer per key issues SetAsync with increasing versions through a tiny ring;
// without any further call every accepted write must become visible, in order, within bounded time.
func asyncOrder(m *meta, rng *rand.Rand, round int) {
	conf := kioshun.Config{ShardCount: pick(rng, []int{1, 2}), EvictionPolicy: pick(rng, []kioshun.EvictionPolicy{kioshun.LRU, kioshun.SieveTinyLFU, kioshun.FIFO}),
		WriteBufferSize: pick(rng, []int{1, 2, 4}), WriteBatchSize: pick(rng, []int{1, 2, 64})}
	ctx := fmt.Sprintf("async round %d cfg %+v", round, conf)
	c, err := kioshun.New[int, int](conf)
	must(err)
	nk := 2 + rng.Intn(14)
	per := 300 + rng.Intn(2500)
	var wg sync.WaitGroup
	last := make([]int, nk)
	pollStop := make(chan struct{})
	var pollWg sync.WaitGroup
	pollWg.Add(1)
	go func() {
		defer pollWg.Done()
		seen := make([]int, nk)
		for {
			select {
			case <-pollStop:
				return
			default:
			}
			for k := 0; k < nk; k++ {
				if v, _, _, ok := c.VerifPeek(k); ok {
					if v < seen[k] {
						m.violate("C04", fmt.Sprintf("%s: key %d went back from version %d to %d (single producer, increasing versions)", ctx, k, seen[k], v), ctx)
						return
					}
					seen[k] = v
				}
			}
		}
	}()
	watch(ctx)
	for k := 0; k < nk; k++ {
		wg.Add(1)
		k := k
		mode := rng.Intn(5) // 0,3,4: SetAsync only
		go func() {
			defer wg.Done()
			for v := 1; v <= per; v++ {
				var e error
				switch {
				case mode == 1 && v%5 == 0:
					e = c.Set(k, v, kioshun.NoExpiration)
					if pv, _, _, ok := c.VerifPeek(k); e == nil && (!ok || pv != v) {
						m.violate("C04", fmt.Sprintf("%s: Set(%d,%d) returned but the key holds (%d,%v): an earlier accepted write overwrote a later one", ctx, k, v, pv, ok), ctx)
					}
				case mode == 2 && v%7 == 0:
					c.Delete(k)
					if pv, _, _, ok := c.VerifPeek(k); ok {
						m.violate("C04", fmt.Sprintf("%s: Delete(%d) returned but the key holds %d: a write accepted before the Delete was applied after it", ctx, k, pv), ctx)
					}
					last[k] = -1
					continue
				default:
					e = c.SetAsync(k, v, kioshun.NoExpiration)
				}
				if e != nil {
					m.violate("C04", fmt.Sprintf("%s: write returned %v on an open cache", ctx, e), ctx)
					return
				}
				last[k] = v
			}
		}()
	}
	wg.Wait()
	unwatch()
	close(pollStop)
	pollWg.Wait()
	// no further calls: only side-effect-free peeks
	deadline := time.Now().Add(3 * time.Second)
	okAll := false
	for time.Now().Before(deadline) {
		okAll = true
		for k := 0; k < nk; k++ {
			if v, _, _, ok := c.VerifPeek(k); (last[k] == -1 && ok) || (last[k] != -1 && (!ok || v != last[k])) {
				okAll = false
			}
		}
		if okAll {
			break
		}
		time.Sleep(200 * time.Microsecond)
	}
	if !okAll {
		for k := 0; k < nk; k++ {
			v, _, _, ok := c.VerifPeek(k)
			if (last[k] == -1 && ok) || (last[k] != -1 && (!ok || v != last[k])) {
				m.violate("C04", fmt.Sprintf("%s: key %d: last accepted write was %d but 3 s later (no further calls) the cache holds (%d,%v); ring depth %d", ctx, k, last[k], v, ok, c.VerifQueueDepth(c.VerifShardIndex(k))), ctx)
				m.violate("C07", fmt.Sprintf("%s: accepted async write never applied (lost wake-up?)", ctx), ctx)
				break
			}
		}
	}
	// Sync fence
	for k := 0; k < nk; k++ {
		c.SetAsync(k, per+1, kioshun.NoExpiration)
	}
	watch(ctx + " Sync")
	if e := c.Sync(); e != nil {
		m.violate("C04", ctx+": Sync failed on an open cache", ctx)
	}
	unwatch()
	for k := 0; k < nk; k++ {
		if v, _, _, ok := c.VerifPeek(k); !ok || v != per+1 {
			m.violate("C04", fmt.Sprintf("%s: after Sync key %d holds (%d,%v), want %d", ctx, k, v, ok, per+1), ctx)
		}
	}
	for k := 0; k < nk; k++ {
		c.SetAsync(k, per+2, kioshun.NoExpiration)
	}
	watch(ctx + " Clear")
	c.Clear()
	unwatch()
	if c.Size() != 0 {
		m.violate("C04", fmt.Sprintf("%s: Clear left %d entries accepted before it", ctx, c.Size()), ctx)
	}
	watch(ctx + " Close")
	c.Close()
	unwatch()
	m.count("async_rounds")
}

// closeRaces (C07 C08): Close racing producers blocked on a full ring, Sync, Clear, listeners that re-enter.
func closeRaces(m *meta, rng *rand.Rand, round int) {
	conf := kioshun.Config{MaxSize: pick(rng, []int64{0, 4, 64, 64}), ShardCount: pick(rng, []int{1, 2}), WriteBufferSize: 2, WriteBatchSize: 1,
		EvictionPolicy: pick(rng, []kioshun.EvictionPolicy{kioshun.LRU, kioshun.SieveTinyLFU, kioshun.SieveTinyLFU, kioshun.LFU}), StatsEnabled: true,
		CleanupInterval: pick(rng, []time.Duration{0, time.Millisecond, time.Hour, 5 * time.Minute})}
	ctx := fmt.Sprintf("close round %d cfg %+v", round, conf)
	base := runtime.NumGoroutine()
	var c *kioshun.Cache[int, int]
	slow := rng.Intn(3) == 0
	var closedRet atomic.Bool
	var afterClose atomic.Int64
	c, err := kioshun.New[int, int](conf, kioshun.WithOnRemove(func(k, v int, r kioshun.RemovalReason) {
		if slow {
			time.Sleep(200 * time.Microsecond)
		}
		if closedRet.Load() {
			afterClose.Add(1)
		}
		c.Get(k + 1)
		c.Exists(k)
	}))
	must(err)
	var wg sync.WaitGroup
	stop := make(chan struct{})
	var accepted, refused atomic.Int64
	watch(ctx)
	for g := 0; g < 12; g++ {
		wg.Add(1)
		g := g
		go func() {
			defer wg.Done()
			for i := 0; ; i++ {
				select {
				case <-stop:
					return
				default:
				}
				var e error
				switch (g + i) % 5 {
				case 0, 1:
					e = c.SetAsync(i%50, i, pick(rand.New(rand.NewSource(int64(i))), []time.Duration{0, time.Millisecond, -1}))
				case 2:
					e = c.Set(i%50, i, 0)
				case 3:
					c.Sync()
				case 4:
					if i%40 == 4 {
						c.Clear()
					}
					e = c.SetWithCallback(i%50, i, time.Millisecond, func(k, v int) { c.Get(k); c.Delete(k) })
				}
				if e == nil {
					accepted.Add(1)
				} else if errors.Is(e, kioshun.ErrCacheClosed) {
					refused.Add(1)
					if !c.VerifClosed() {
						m.violate("C08", ctx+": ErrCacheClosed from an open cache", ctx)
					}
					runtime.Gosched() // refused calls return at once: do not starve Close's final drain on a small machine
				}
			}
		}()
	}
	time.Sleep(time.Duration(1+rng.Intn(4)) * time.Millisecond)
	var cw sync.WaitGroup
	for i := 0; i < 3; i++ {
		cw.Add(1)
		go func() { defer cw.Done(); c.Close(); closedRet.Store(true) }()
	}
	cw.Wait()
	// once ANY Close has returned the cache must be final
	if e := c.Set(1, 1, 0); !errors.Is(e, kioshun.ErrCacheClosed) {
		m.violate("C08", ctx+": Set succeeded after Close returned", ctx)
	}
	if _, ok := c.Get(1); ok {
		m.violate("C08", ctx+": Get hit after Close returned", ctx)
	}
	close(stop)
	wg.Wait()
	unwatch()
	for k := 0; k < 50; k++ {
		if v, ok := c.Get(k); ok {
			m.violate("C08", fmt.Sprintf("%s: Get(%d) returned %d after Close had returned", ctx, k, v), ctx)
			break
		}
	}
	if n := afterClose.Load(); n > 0 {
		m.violate("C08", fmt.Sprintf("%s: the removal listener was invoked %d times after a Close call had returned (notifier still running)", ctx, n), ctx)
	}
	// every caller has returned: a closed cache holds nothing and its counters say so
	if sz, cost, nk := c.Size(), c.Cost(), len(c.Keys()); sz != 0 || cost != 0 || nk != 0 {
		for _, p := range []string{"C08", "C10"} {
			m.violate(p, fmt.Sprintf("%s: after Close returned and every in-flight call came back, the closed cache reports Size=%d Cost=%d len(Keys)=%d (a write was applied to the cleared cache)", ctx, sz, cost, nk), ctx)
		}
	}
	deadline := time.Now().Add(3 * time.Second)
	for runtime.NumGoroutine() > base && time.Now().Before(deadline) {
		time.Sleep(time.Millisecond)
	}
	if n := runtime.NumGoroutine(); n > base {
		m.violate("C08", fmt.Sprintf("%s: %d goroutines still alive 3 s after Close returned", ctx, n-base), ctx)
	}
	m.count("close_rounds")
}

func stepUntil(id int, points ...int) int {
	for i := 0; i < 400; i++ {
		p := kioshun.VerifSchedStep(id)
		for _, q := range points {
			if p == q {
				return p
			}
		}
		if p == kioshun.VerifStepDone || p == kioshun.VerifStepBlocked || p == kioshun.VerifStepUnknown {
			return p
		}
	}
	return -9
}

// stalledProducer (C04, deterministic through the yield hooks): a producer is parked between reserving a
// ring slot and publishing it; a write to k is queued behind it while the shard is busy; a later write to k
// must not overtake it.
func stalledProducer(m *meta, rng *rand.Rand, round int) {
	conf := kioshun.Config{ShardCount: 1, EvictionPolicy: pick(rng, []kioshun.EvictionPolicy{kioshun.LRU, kioshun.SieveTinyLFU, kioshun.FIFO}), WriteBufferSize: 8, WriteBatchSize: pick(rng, []int{1, 2, 64})}
	ctx := fmt.Sprintf("stalled producer round %d cfg %+v", round, conf)
	c, err := kioshun.New[int, int](conf) // workers start before the scheduler is on: they run freely
	must(err)
	watch(ctx)
	defer unwatch()
	kioshun.VerifSchedReset(true, 300*time.Millisecond)
	defer kioshun.VerifSchedReset(false, 0)
	// P0: synchronous Set parked while holding the drain token (yield 332 is before the shard lock)
	kioshun.VerifSchedSpawn(1, func() { c.Set(900, 1, kioshun.NoExpiration) })
	if p := stepUntil(1, 332); p != 332 {
		m.count("stalled_setup_failed")
		return
	}
	// P1: SetAsync cannot apply inline (token busy) -> enqueues; park it between reserve (CAS) and publish
	kioshun.VerifSchedSpawn(2, func() { c.SetAsync(901, 1, kioshun.NoExpiration) })
	if p := stepUntil(2, 104); p != 104 {
		m.count("stalled_setup_failed")
		stepUntil(1, -100)
		stepUntil(2, -100)
		return
	}
	// write 1 to k is accepted while the token is still busy: it must queue behind P1's slot
	if e := c.SetAsync(7, 1, kioshun.NoExpiration); e != nil {
		m.violate("C04", ctx+": SetAsync failed", ctx)
	}
	stepUntil(1, -100) // P0 finishes and releases the token
	// write 2 to k on a now uncontended shard
	if e := c.SetAsync(7, 2, kioshun.NoExpiration); e != nil {
		m.violate("C04", ctx+": SetAsync failed", ctx)
	}
	stepUntil(2, -100) // the stalled producer publishes
	kioshun.VerifSchedReset(false, 0)
	c.Sync()
	if v, ok := c.Get(7); !ok || v != 2 {
		m.violate("C04", fmt.Sprintf("%s: SetAsync(7,1) returned before SetAsync(7,2) was called, yet after Sync the key holds (%d,%v)", ctx, v, ok), ctx)
	}
	c.Close()
	m.count("stalled_producer_rounds")
}

// syncOvertake (C04, deterministic): SetAsync(k,2) is queued BEHIND a slot that another producer reserved but has
// not published, and returns; a synchronous Set(k,5) that starts afterwards must not be overwritten by it
// (schedule of QueueLts realtime_order_refuted, finding F13). The Set runs as a scheduled thread so that a
// repaired syncMutate, which waits for the reservation to be published, can be stepped around.
func syncOvertake(m *meta, rng *rand.Rand, round int) {
	conf := kioshun.Config{ShardCount: 1, EvictionPolicy: pick(rng, []kioshun.EvictionPolicy{kioshun.LRU, kioshun.SieveTinyLFU, kioshun.FIFO, kioshun.LFU}), WriteBufferSize: pick(rng, []int{2, 4, 8}), WriteBatchSize: pick(rng, []int{1, 2, 64})}
	useDelete := rng.Intn(3) == 0
	ctx := fmt.Sprintf("sync overtake round %d delete=%v cfg %+v", round, useDelete, conf)
	c, err := kioshun.New[int, int](conf)
	must(err)
	watch(ctx)
	defer unwatch()
	kioshun.VerifSchedReset(true, 300*time.Millisecond)
	defer kioshun.VerifSchedReset(false, 0)
	kioshun.VerifSchedSpawn(1, func() { c.Set(900, 1, kioshun.NoExpiration) })
	if p := stepUntil(1, 332); p != 332 {
		m.count("overtake_setup_failed")
		return
	}
	kioshun.VerifSchedSpawn(2, func() { c.SetAsync(901, 1, kioshun.NoExpiration) })
	if p := stepUntil(2, 104); p != 104 {
		m.count("overtake_setup_failed")
		stepUntil(1, -100)
		stepUntil(2, -100)
		return
	}
	stepUntil(1, -100) // the token is free again; P2 still holds an unpublished reservation
	if e := c.SetAsync(7, 2, kioshun.NoExpiration); e != nil {
		m.violate("C04", ctx+": SetAsync failed", ctx)
	}
	// SetAsync(7,2) has returned. Now the synchronous mutation begins.
	var delRes bool
	kioshun.VerifSchedSpawn(3, func() {
		if useDelete {
			delRes = c.Delete(7)
		} else {
			c.Set(7, 5, kioshun.NoExpiration)
		}
	})
	p3 := stepUntil(3, -100)
	stepUntil(2, -100)                                       // the stalled producer publishes
	for i := 0; i < 20 && p3 != kioshun.VerifStepDone; i++ { // generous: a slow machine must not look like a hang
		p3 = stepUntil(3, -100)
	}
	kioshun.VerifSchedReset(false, 0)
	if p3 != kioshun.VerifStepDone {
		m.violate("C07", fmt.Sprintf("%s: the synchronous mutation did not return after the stalled producer published (step result %d)", ctx, p3), ctx)
	}
	c.Sync()
	v, ok := c.Get(7)
	if useDelete {
		if ok {
			for _, p := range []string{"C04", "C01"} {
				m.violate(p, fmt.Sprintf("%s: SetAsync(7,2) returned before Delete(7) was called (Delete returned %v), yet after Sync the key holds %d (a deleted value is served)", ctx, delRes, v), ctx)
			}
		}
	} else if !ok || v != 5 {
		for _, p := range []string{"C04", "C01"} {
			m.violate(p, fmt.Sprintf("%s: SetAsync(7,2) returned before Set(7,5) was called, yet after Sync the key holds (%d,%v) (an overwritten value is served)", ctx, v, ok), ctx)
		}
	}
	c.Close()
	m.count("sync_overtake_rounds")
}

// syncBehindStalled (C04, deterministic): SetAsync(7,2) is accepted BEHIND a slot that another producer reserved but
// has not published; then Sync (or Clear) is called with the drain token free. The fence may help draining, but the
// drain stops at the unpublished slot: Sync may only return once the accepted write is visible, Clear only once it
// has been removed (so it may not reappear when the stalled producer finally publishes).
func syncBehindStalled(m *meta, rng *rand.Rand, round int) {
	conf := kioshun.Config{ShardCount: 1, EvictionPolicy: pick(rng, []kioshun.EvictionPolicy{kioshun.LRU, kioshun.SieveTinyLFU, kioshun.FIFO, kioshun.LFU}), WriteBufferSize: pick(rng, []int{4, 8, 64}), WriteBatchSize: pick(rng, []int{1, 2, 64})}
	useClear := rng.Intn(3) == 0
	ctx := fmt.Sprintf("sync behind stalled producer round %d clear=%v cfg %+v", round, useClear, conf)
	c, err := kioshun.New[int, int](conf)
	must(err)
	watch(ctx)
	defer unwatch()
	kioshun.VerifSchedReset(true, 300*time.Millisecond)
	defer kioshun.VerifSchedReset(false, 0)
	kioshun.VerifSchedSpawn(1, func() { c.Set(900, 1, kioshun.NoExpiration) })
	if p := stepUntil(1, 332); p != 332 {
		m.count("sync_behind_setup_failed")
		return
	}
	kioshun.VerifSchedSpawn(2, func() { c.SetAsync(901, 1, kioshun.NoExpiration) })
	if p := stepUntil(2, 104); p != 104 {
		m.count("sync_behind_setup_failed")
		stepUntil(1, -100)
		stepUntil(2, -100)
		return
	}
	stepUntil(1, -100) // the token is free again; thread 2 still holds an unpublished reservation
	if e := c.SetAsync(7, 2, kioshun.NoExpiration); e != nil {
		m.violate("C04", ctx+": SetAsync failed", ctx)
	}
	kioshun.VerifSchedSpawn(3, func() {
		if useClear {
			c.Clear()
		} else {
			c.Sync()
		}
	})
	p3 := stepUntil(3, -100)
	if p3 == kioshun.VerifStepDone {
		// the fence returned while the reservation in front of the accepted write is still unpublished
		v, ok := c.Get(7)
		if !useClear && (!ok || v != 2) {
			for _, p := range []string{"C04", "C01"} {
				m.violate(p, fmt.Sprintf("%s: SetAsync(7,2) returned nil (queued behind a reserved, unpublished slot); Sync was then called and returned; Get(7)=(%d,%v): when Sync returns every SetAsync that returned before it is visible", ctx, v, ok), ctx)
			}
		}
	}
	stepUntil(2, -100) // the stalled producer publishes
	for i := 0; i < 20 && p3 != kioshun.VerifStepDone; i++ {
		p3 = stepUntil(3, -100)
	}
	kioshun.VerifSchedReset(false, 0)
	if p3 != kioshun.VerifStepDone {
		m.violate("C07", fmt.Sprintf("%s: the fence did not return after the stalled producer published (step result %d)", ctx, p3), ctx)
	}
	time.Sleep(2 * time.Millisecond)
	c.Sync()
	v, ok := c.Get(7)
	if useClear && ok {
		for _, p := range []string{"C04", "C01"} {
			m.violate(p, fmt.Sprintf("%s: SetAsync(7,2) returned nil before Clear was called; after Clear returned (and the stalled producer published) Get(7)=(%d,true): Clear removes every write accepted before it", ctx, v), ctx)
		}
	}
	if !useClear && (!ok || v != 2) {
		m.violate("C04", fmt.Sprintf("%s: after Sync the accepted SetAsync(7,2) is not visible: Get(7)=(%d,%v)", ctx, v, ok), ctx)
	}
	c.Close()
	m.count("sync_behind_stalled_rounds")
}

// newAdopted builds a one-shard cache whose write worker is schedulable thread 1000, parked before its select.
func newAdopted(conf kioshun.Config) (*kioshun.Cache[int, int], bool) {
	kioshun.VerifSchedReset(true, 300*time.Millisecond)
	kioshun.VerifSchedAdoptWorkers(true)
	c, err := kioshun.New[int, int](conf)
	must(err)
	for i := 0; i < 2000 && !kioshun.VerifSchedKnown(1000); i++ {
		time.Sleep(100 * time.Microsecond)
	}
	kioshun.VerifSchedAdoptWorkers(false)
	if !kioshun.VerifSchedKnown(1000) || stepUntil(1000, 301) != 301 {
		return c, false
	}
	return c, true
}

// closeAdopted closes c from thread 99 while stepping the adopted worker, then switches the scheduler off.
func closeAdopted(m *meta, c *kioshun.Cache[int, int], ctx string) {
	kioshun.VerifSchedSpawn(99, func() { c.Close() })
	closed, workerDone := false, false
	for i := 0; i < 60 && !closed; i++ {
		if p := stepUntil(99, -100); p == kioshun.VerifStepDone {
			closed = true
			break
		}
		if !workerDone {
			if p := stepUntil(1000, -100); p == kioshun.VerifStepDone {
				workerDone = true
			}
		}
	}
	kioshun.VerifSchedReset(false, 0)
	if !closed {
		for _, p := range []string{"C07", "C08"} {
			m.violate(p, ctx+": Close did not return although the worker was run to completion", ctx)
		}
	}
}

// syncFence (C04, deterministic): the worker has DEQUEUED an accepted SetAsync (ring quiescent again) but not yet
// applied it; Sync called now must not return before the write is visible.
func syncFence(m *meta, rng *rand.Rand, round int) {
	conf := kioshun.Config{ShardCount: 1, EvictionPolicy: pick(rng, []kioshun.EvictionPolicy{kioshun.LRU, kioshun.SieveTinyLFU, kioshun.FIFO, kioshun.LFU}), WriteBufferSize: pick(rng, []int{2, 4, 8}), WriteBatchSize: pick(rng, []int{1, 2, 64})}
	ctx := fmt.Sprintf("sync fence round %d cfg %+v", round, conf)
	watch(ctx)
	defer unwatch()
	c, ok := newAdopted(conf)
	if !ok {
		m.count("fence_setup_failed")
		m.sample(fmt.Sprintf("fence setup: worker known=%v", kioshun.VerifSchedKnown(1000)))
		kioshun.VerifSchedReset(false, 0)
		return
	}
	kioshun.VerifSchedSpawn(1, func() { c.Set(900, 1, kioshun.NoExpiration) })
	if p := stepUntil(1, 332); p != 332 {
		m.count("fence_setup_failed")
		stepUntil(1, -100)
		closeAdopted(m, c, ctx)
		return
	}
	if e := c.SetAsync(7, 1, kioshun.NoExpiration); e != nil { // token busy: queued, returns
		m.violate("C04", ctx+": SetAsync failed", ctx)
	}
	stepUntil(1, -100)
	if p := stepUntil(1000, 312); p != 312 { // worker: wake, token, dequeue, parked before the shard lock
		m.count("fence_setup_failed")
		m.sample(fmt.Sprintf("fence setup: worker stopped at %d instead of 312", p))
		closeAdopted(m, c, ctx)
		return
	}
	var serr error
	kioshun.VerifSchedSpawn(3, func() { serr = c.Sync() })
	p3 := stepUntil(3, -100)
	if p3 == kioshun.VerifStepDone {
		if v, ok := c.Get(7); serr == nil && (!ok || v != 1) {
			for _, p := range []string{"C04", "C01"} {
				m.violate(p, fmt.Sprintf("%s: SetAsync(7,1) had returned, Sync then returned nil while the worker still held the dequeued command: Get(7)=(%d,%v)", ctx, v, ok), ctx)
			}
		}
	}
	stepUntil(1000, 301)
	if p3 != kioshun.VerifStepDone {
		for i := 0; i < 20 && p3 != kioshun.VerifStepDone; i++ {
			p3 = stepUntil(3, -100)
			if p3 != kioshun.VerifStepDone {
				stepUntil(1000, 301)
			}
		}
		if p3 != kioshun.VerifStepDone {
			for _, p := range []string{"C04", "C07"} {
				m.violate(p, fmt.Sprintf("%s: Sync did not return after the worker applied everything and went idle (step result %d)", ctx, p3), ctx)
			}
		} else if v, ok := c.Get(7); serr != nil || !ok || v != 1 {
			m.violate("C04", fmt.Sprintf("%s: after Sync (err %v) Get(7)=(%d,%v), want (1,true)", ctx, serr, v, ok), ctx)
		}
	}
	closeAdopted(m, c, ctx)
	m.count("sync_fence_rounds")
}

// inlineBehindDequeued (C04, C01): the worker has DEQUEUED SetAsync(7,1) (the ring looks empty) and is parked right
// before the shard lock, still holding the drain token; SetAsync(7,2) issued now must not be applied ahead of it.
// Deterministic through the scheduler hooks; the policies whose shards have no sieve state included.
func inlineBehindDequeued(m *meta, rng *rand.Rand, round int) {
	conf := kioshun.Config{ShardCount: 1, MaxSize: pick(rng, []int64{0, 0, 64}), EvictionPolicy: pick(rng, []kioshun.EvictionPolicy{kioshun.LRU, kioshun.SieveTinyLFU, kioshun.FIFO, kioshun.LFU}), WriteBufferSize: pick(rng, []int{2, 4, 8}), WriteBatchSize: pick(rng, []int{1, 2, 64})}
	ctx := fmt.Sprintf("inline behind dequeued round %d cfg %+v", round, conf)
	watch(ctx)
	defer unwatch()
	c, ok := newAdopted(conf)
	if !ok {
		m.count("dequeued_setup_failed")
		kioshun.VerifSchedReset(false, 0)
		return
	}
	c.VerifHoldShard(0, true) // the shard lock is busy: the inline attempt fails whatever else it checks, the write is queued
	e1 := c.SetAsync(7, 1, kioshun.NoExpiration)
	c.VerifHoldShard(0, false)
	if e1 != nil {
		m.violate("C04", ctx+": SetAsync failed", ctx)
	}
	if p := stepUntil(1000, 312); p != 312 { // worker: wake, token, dequeue, parked before the shard lock
		m.count("dequeued_setup_failed")
		closeAdopted(m, c, ctx)
		return
	}
	e2 := c.SetAsync(7, 2, kioshun.NoExpiration) // free-running caller: the earlier write has returned long ago
	stepUntil(1000, 301)
	for i := 0; i < 10; i++ { // let the worker drain whatever the second call queued
		stepUntil(1000, 301)
	}
	kioshun.VerifSchedSpawn(3, func() { c.Sync() })
	for i := 0; i < 20; i++ {
		if stepUntil(3, -100) == kioshun.VerifStepDone {
			break
		}
		stepUntil(1000, 301)
	}
	if v, ok := c.Get(7); e2 == nil && (!ok || v != 2) {
		for _, p := range []string{"C04", "C01"} {
			m.violate(p, fmt.Sprintf("%s: SetAsync(7,1) returned; the worker dequeued it and was parked before the shard lock; SetAsync(7,2) then returned nil; after the worker ran and Sync: Get(7)=(%d,%v), the later accepted write must win", ctx, v, ok), ctx)
		}
	}
	closeAdopted(m, c, ctx)
	m.count("inline_behind_dequeued_rounds")
}

// closeNotify (C06): evictions staged while the notifier is busy inside a listener, then Close: every entry that
// left before Close must still be reported exactly once.
func closeNotify(m *meta, rng *rand.Rand, round int) {
	for trial := 0; trial < 6; trial++ {
		pol := pick(rng, []kioshun.EvictionPolicy{kioshun.LRU, kioshun.FIFO})
		ctx := fmt.Sprintf("close-notify round %d trial %d policy %v", round, trial, pol)
		gate := make(chan struct{})
		var first, entered atomic.Bool
		first.Store(true)
		var n, ev atomic.Int64
		c, err := kioshun.New[int, int](kioshun.Config{MaxSize: 2, ShardCount: 1, EvictionPolicy: pol},
			kioshun.WithOnRemove(func(k, v int, r kioshun.RemovalReason) {
				if first.CompareAndSwap(true, false) {
					entered.Store(true)
					<-gate
				}
				n.Add(1)
			}), kioshun.WithOnEvict(func(k, v int) { ev.Add(1) }))
		must(err)
		watch(ctx)
		for k := 1; k <= 3; k++ {
			c.Set(k, k, kioshun.NoExpiration)
		}
		for t0 := time.Now(); !entered.Load() && time.Since(t0) < 2*time.Second; {
			runtime.Gosched()
		}
		for k := 4; k <= 6; k++ {
			c.Set(k, k, kioshun.NoExpiration) // three more evictions staged behind the busy notifier
		}
		done := make(chan struct{})
		go func() { c.Close(); close(done) }()
		for t0 := time.Now(); time.Since(t0) < 2*time.Second; {
			if _, _, _, _, closed := c.VerifLockState(0); closed {
				break
			}
			runtime.Gosched()
		}
		close(gate)
		<-done
		unwatch()
		if entered.Load() && (n.Load() != 4 || ev.Load() != 4) {
			m.violate("C06", fmt.Sprintf("%s: 4 entries were evicted before Close began; OnRemove ran %d times, OnEvict %d times by the time Close returned", ctx, n.Load(), ev.Load()), ctx)
		}
	}
	m.count("close_notify_rounds")
}

// lateDrainProbe (C10, C08; regression for finding F15, fixed): a SetAsync that passed the closed checks before Close began is published
// after Close has completely finished (workers gone, shards cleared); a Sync that also began before Close then drains
// the ring and applies that write to the cleared, closed cache: Size/Cost report an entry that no call can reach.
// Deterministic through the scheduler hooks (workers run freely; the two callers are parked before reserving a slot).
func lateDrainProbe(m *meta) {
	for _, pol := range []kioshun.EvictionPolicy{kioshun.LRU, kioshun.SieveTinyLFU, kioshun.FIFO, kioshun.LFU} {
		ctx := fmt.Sprintf("late-drain probe policy %v", pol)
		watch(ctx)
		kioshun.VerifSchedReset(true, 300*time.Millisecond)
		c, err := kioshun.New[int, int](kioshun.Config{MaxSize: 64, ShardCount: 1, EvictionPolicy: pol, WriteBufferSize: 8, WriteBatchSize: 2})
		must(err)
		c.Set(1, 1, kioshun.NoExpiration)
		// P: SetAsync(3) cannot apply inline (drain token busy), passes the closed checks, parks before reserving its slot
		c.VerifHoldDrain(0, true)
		var perr, serr error
		kioshun.VerifSchedSpawn(2, func() { perr = c.SetAsync(3, 3, kioshun.NoExpiration) })
		p := stepUntil(2, 101)
		c.VerifHoldDrain(0, false)
		// S: Sync() passes its closed check and parks before reserving its barrier
		kioshun.VerifSchedSpawn(3, func() { serr = c.Sync() })
		q := stepUntil(3, 101)
		if p != 101 || q != 101 {
			m.count("late_drain_setup_failed")
			kioshun.VerifSchedRelease()
			c.Close()
			unwatch()
			continue
		}
		c.Close()          // runs to completion: flush, broadcast, workers exit, shards cleared
		stepUntil(2, -100) // P reserves, publishes, returns
		stepUntil(3, -100) // S reserves its barrier behind P's write and drains the ring itself
		kioshun.VerifSchedReset(false, 0)
		unwatch()
		sz, cost, keys := c.Size(), c.Cost(), c.Keys()
		_, hit := c.Get(3)
		if sz != 0 || cost != 0 || len(keys) != 0 || hit {
			what := fmt.Sprintf("%s: SetAsync(3,3) and Sync() both began before Close (parked before reserving a ring slot); Close ran to completion; then SetAsync returned %v and Sync returned %v. Every call has returned, yet the closed cache reports Size=%d Cost=%d while Keys()=%v and Get(3) hit=%v: Size must equal the number of keys Keys returns", ctx, perr, serr, sz, cost, keys, hit)
			for _, p := range []string{"C10", "C08"} {
				m.violate(p, what, ctx)
			}
		}
		m.count("late_drain_probes")
	}
}

// closeDrainNotifyProbe (C06): a SetAsync accepted while Close is in progress is applied by the write worker's
// FINAL drain; if that write evicts an entry after the notifier goroutine has already taken its own closeCh branch
// and exited, the eviction is never reported (model: NotifierProofs staged_after_exit_lost). Deterministic through
// the scheduler hooks (the worker is adopted; the notifier runs freely and exits as soon as closeCh is closed).
func closeDrainNotifyProbe(m *meta) {
	ctx := "close-drain-notify probe"
	watch(ctx)
	defer unwatch()
	var mu sync.Mutex
	seen := map[int]int{}
	kioshun.VerifSchedReset(true, 300*time.Millisecond)
	kioshun.VerifSchedAdoptWorkers(true)
	c, err := kioshun.New[int, int](kioshun.Config{MaxSize: 2, ShardCount: 1, EvictionPolicy: kioshun.LRU, WriteBufferSize: 4, WriteBatchSize: 2},
		kioshun.WithOnRemove(func(k, v int, r kioshun.RemovalReason) { mu.Lock(); seen[k]++; mu.Unlock() }))
	must(err)
	for i := 0; i < 5000 && !kioshun.VerifSchedKnown(1000); i++ {
		time.Sleep(100 * time.Microsecond)
	}
	kioshun.VerifSchedAdoptWorkers(false)
	if !kioshun.VerifSchedKnown(1000) || stepUntil(1000, 301) != 301 {
		m.count("close_drain_setup_failed")
		kioshun.VerifSchedRelease()
		c.Close()
		return
	}
	c.Set(1, 1, kioshun.NoExpiration)
	c.Set(2, 2, kioshun.NoExpiration)
	// P: SetAsync(3) cannot apply inline (the harness holds the drain token), passes the closed checks, parks before reserving
	c.VerifHoldDrain(0, true)
	var perr error
	kioshun.VerifSchedSpawn(2, func() { perr = c.SetAsync(3, 3, kioshun.NoExpiration) })
	p := stepUntil(2, 101)
	c.VerifHoldDrain(0, false)
	if p != 101 {
		m.count("close_drain_setup_failed")
		kioshun.VerifSchedRelease()
		c.Close()
		return
	}
	// Close: flush (the closer drains its own barrier), broadcast; then it waits for the workers
	kioshun.VerifSchedSpawn(3, func() { c.Close() })
	if q := stepUntil(3, 341); q != 341 {
		m.count("close_drain_setup_failed")
		kioshun.VerifSchedRelease()
		c.Close()
		return
	}
	time.Sleep(20 * time.Millisecond) // the free-running notifier takes its closeCh branch and exits
	stepUntil(2, -100)                // P reserves, publishes, returns nil: accepted during shutdown
	stepUntil(1000, -100)             // the worker's final drain applies Set(3): the LRU entry is evicted
	stepUntil(3, -100)                // Close returns
	kioshun.VerifSchedRelease()
	time.Sleep(5 * time.Millisecond)
	mu.Lock()
	n1, n2 := seen[1], seen[2]
	mu.Unlock()
	if perr == nil && n1+n2 == 0 {
		m.known("KNOWN-FINDING: property=C06 a SetAsync accepted while Close is in progress is applied by the write worker's final drain and evicts an entry after the notifier goroutine has already exited: that capacity eviction is never reported to OnRemove/OnEvict (replayed on the real code through the scheduler hooks; model NotifierProofs.staged_after_exit_lost)")
	} else {
		m.count("close_drain_not_reproduced")
		m.sample(fmt.Sprintf("close-drain-notify probe: SetAsync err=%v notifications key1=%d key2=%d", perr, n1, n2))
	}
}

// backlogProbe (C06): while the notifier is busy inside a listener, the SAME key leaves the cache several times for
// the same reason; every departure must be reported with the value it held (no folding of adjacent entries).
func backlogProbe(m *meta, rng *rand.Rand, round int) {
	pol := pick(rng, []kioshun.EvictionPolicy{kioshun.LRU, kioshun.FIFO, kioshun.SieveTinyLFU, kioshun.LFU})
	ctx := fmt.Sprintf("notifier backlog round %d policy %v", round, pol)
	gate := make(chan struct{})
	var first, entered atomic.Bool
	first.Store(true)
	var mu sync.Mutex
	got := map[int]int{}
	c, err := kioshun.New[int, int](kioshun.Config{ShardCount: pick(rng, []int{1, 2}), EvictionPolicy: pol, MaxSize: pick(rng, []int64{0, 64})},
		kioshun.WithOnRemove(func(k, v int, r kioshun.RemovalReason) {
			if first.CompareAndSwap(true, false) {
				entered.Store(true)
				<-gate
			}
			mu.Lock()
			got[v]++
			mu.Unlock()
		}))
	must(err)
	watch(ctx)
	defer unwatch()
	c.Set(1, 1, kioshun.NoExpiration)
	c.Delete(1)
	for t0 := time.Now(); !entered.Load() && time.Since(t0) < 2*time.Second; {
		runtime.Gosched()
	}
	want := []int{1}
	for i := 0; i < 4; i++ { // four consecutive departures of key 9 with reason deleted
		c.Set(9, 90+i, kioshun.NoExpiration)
		c.Delete(9)
		want = append(want, 90+i)
	}
	for i := 0; i < 3; i++ { // then three with reason expired (discovered by Get)
		c.Set(9, 190+i, time.Nanosecond)
		time.Sleep(time.Microsecond)
		c.Get(9)
		want = append(want, 190+i)
	}
	close(gate)
	for t0 := time.Now(); time.Since(t0) < 2*time.Second; time.Sleep(200 * time.Microsecond) {
		c.VerifFlushRemovals()
		mu.Lock()
		n := len(got)
		mu.Unlock()
		if n >= len(want) {
			break
		}
	}
	mu.Lock()
	for _, v := range want {
		if got[v] != 1 {
			m.violate("C06", fmt.Sprintf("%s: the entry holding v%d left the cache (Delete / expiry) while the notifier was busy; it was reported %d times, want 1 (received %v)", ctx, v, got[v], got), ctx)
			break
		}
	}
	mu.Unlock()
	c.Close()
	m.count("backlog_rounds")
}

// statsRace (C10): more running Ps than stat stripes; every successful Get must be counted exactly once.
func statsRace(m *meta, rng *rand.Rand, round int) {
	pol := pick(rng, []kioshun.EvictionPolicy{kioshun.SieveTinyLFU, kioshun.LRU, kioshun.FIFO})
	ctx := fmt.Sprintf("stats race round %d policy %v", round, pol)
	c, err := kioshun.New[int, int](kioshun.Config{MaxSize: 1024, ShardCount: 4, EvictionPolicy: pol, StatsEnabled: true})
	must(err)
	for k := 0; k < 64; k++ {
		c.Set(k, k, kioshun.NoExpiration)
	}
	watch(ctx)
	prev := runtime.GOMAXPROCS(64)
	const readers, per = 64, 8000
	var wg sync.WaitGroup
	var hit, miss atomic.Int64
	for g := 0; g < readers; g++ {
		wg.Add(1)
		go func(g int) {
			defer wg.Done()
			for i := 0; i < per; i++ {
				if _, ok := c.Get((g + i) & 127); ok { // keys 64..127 are absent: misses
					hit.Add(1)
				} else {
					miss.Add(1)
				}
			}
		}(g)
	}
	wg.Wait()
	runtime.GOMAXPROCS(prev)
	unwatch()
	st := c.Stats()
	if st.Hits != hit.Load() || st.Misses != miss.Load() {
		m.violate("C10", fmt.Sprintf("%s: %d goroutines on 64 Ps made %d hits and %d misses; Stats reports Hits=%d Misses=%d", ctx, readers, hit.Load(), miss.Load(), st.Hits, st.Misses), ctx)
	}
	c.Close()
	m.count("stats_race_rounds")
}

// staleAfterDeleteProbe (C02, deterministic): Set(k,1) and Delete(k) have completed; a re-inserting Set(k,2) is parked
// between publish's two stores; a Get that runs entirely inside that window may miss or see 2, never the deleted 1.
func staleAfterDeleteProbe(m *meta) {
	for _, gap := range []int{221, 222} {
		c, err := kioshun.New[int, int](kioshun.Config{MaxSize: 64, ShardCount: 1, EvictionPolicy: kioshun.SieveTinyLFU})
		must(err)
		const k = 5
		c.Set(k, 1, kioshun.NoExpiration)
		c.Delete(k)
		ctx := fmt.Sprintf("stale-after-delete probe (writer parked at %d)", gap)
		watch(ctx)
		kioshun.VerifSchedReset(true, 300*time.Millisecond)
		kioshun.VerifSchedSpawn(2, func() { c.Set(k, 2, kioshun.NoExpiration) })
		if p := stepUntil(2, gap); p != gap {
			m.count("stale_probe_setup_failed")
			stepUntil(2, -100)
		} else {
			v, ok := c.Get(k)
			if ok && v == 1 {
				for _, p := range []string{"C02", "C12"} {
					m.violate(p, fmt.Sprintf("%s: Set(k,1) and Delete(k)=true had completed, Set(k,2) is in flight: Get(k) returned the deleted value 1", ctx), ctx)
				}
			}
			stepUntil(2, -100)
			if v2, ok2 := c.Get(k); !ok2 || v2 != 2 {
				m.violate("C02", fmt.Sprintf("%s: after Set(k,2) returned Get(k)=(%d,%v)", ctx, v2, ok2), ctx)
			}
		}
		kioshun.VerifSchedReset(false, 0)
		unwatch()
		c.Close()
	}
	m.count("stale_after_delete_probes")
}

// cleanupRace (C05): Cleanup sweeping a large shard while an expired, not yet swept key is rewritten with a long
// TTL: the sweep must re-check the deadline under the lock it removes with; the fresh entry must survive.
func cleanupRace(m *meta, rng *rand.Rand, round int) {
	pol := pick(rng, []kioshun.EvictionPolicy{kioshun.LRU, kioshun.FIFO, kioshun.LFU, kioshun.SieveTinyLFU})
	ctx := fmt.Sprintf("cleanup race round %d policy %v", round, pol)
	var bad atomic.Int64
	c, err := kioshun.New[int, int](kioshun.Config{ShardCount: 1, EvictionPolicy: pol, MaxSize: 0},
		kioshun.WithOnRemove(func(k, v int, r kioshun.RemovalReason) {
			if k == -1 && v%2 == 1 && r == kioshun.RemovedExpired {
				bad.Add(1)
			}
		}))
	must(err)
	watch(ctx)
	defer unwatch()
	for k := 0; k < 12000; k++ {
		c.Set(k, k, time.Hour) // fillers make the sweep long
	}
	lost := 0
	for i := 0; i < 12; i++ {
		c.Set(-1, 2*i, time.Microsecond)
		time.Sleep(20 * time.Microsecond) // expired, not swept
		done := make(chan struct{})
		go func() { c.Cleanup(); close(done) }()
		runtime.Gosched()
		c.Set(-1, 2*i+1, time.Hour) // rewrite while the sweep may be between its scan and its removals
		<-done
		if v, ok := c.Get(-1); !ok || v != 2*i+1 {
			lost++
		}
	}
	c.VerifFlushRemovals()
	time.Sleep(time.Millisecond)
	if lost > 0 || bad.Load() > 0 {
		m.violate("C05", fmt.Sprintf("%s: a key rewritten with a 1 h TTL while Cleanup was sweeping was lost %d times and reported expired %d times (Cleanup removes only expired entries)", ctx, lost, bad.Load()), ctx)
		if bad.Load() > 0 {
			m.violate("C06", fmt.Sprintf("%s: a live entry, rewritten with a 1 h TTL while Cleanup was sweeping, was reported to the listener as expired %d times (reason and value must be those of an entry that really left for that reason)", ctx, bad.Load()), ctx)
		}
	}
	c.Close()
	m.count("cleanup_race_rounds")
}

// cleanupBehindLock (C05): Cleanup is called while another caller holds the shard's lock (here the harness, standing
// in for a long Keys scan or a batch being applied). Whenever Cleanup returns, every entry that was expired when it was
// called is gone: a sweep waits for a busy shard, it does not skip it.
func cleanupBehindLock(m *meta, rng *rand.Rand, round int) {
	pol := pick(rng, []kioshun.EvictionPolicy{kioshun.LRU, kioshun.FIFO, kioshun.LFU, kioshun.SieveTinyLFU})
	shards := pick(rng, []int{1, 4})
	ctx := fmt.Sprintf("cleanup behind a held lock round %d policy %v shards %d", round, pol, shards)
	c, err := kioshun.New[int, int](kioshun.Config{ShardCount: shards, EvictionPolicy: pol, MaxSize: 256})
	must(err)
	defer c.Close()
	watch(ctx)
	defer unwatch()
	for k := 0; k < 24; k++ {
		if k%2 == 0 {
			c.Set(k, k, time.Millisecond)
		} else {
			c.Set(k, k, time.Hour)
		}
	}
	time.Sleep(4 * time.Millisecond)
	si := c.VerifShardIndex(0)
	c.VerifHoldShard(si, true)
	done := make(chan struct{})
	go func() { c.Cleanup(); close(done) }()
	time.Sleep(15 * time.Millisecond)
	c.VerifHoldShard(si, false)
	<-done
	left := 0
	for k := 0; k < 24; k += 2 {
		if _, _, _, ok := c.VerifPeek(k); ok {
			left++
		}
	}
	if left > 0 || c.Size() != 12 {
		m.violate("C05", fmt.Sprintf("%s: 12 entries with a 1 ms TTL and 12 with 1 h; 4 ms later Cleanup() was called while shard %d's lock was held for 15 ms by another caller; after Cleanup returned %d expired entries are still resident and Size()=%d (want 12): Cleanup removes every expired entry", ctx, si, left, c.Size()), ctx)
	}
	m.count("cleanup_behind_lock_rounds")
}

// cleanupVsLazyExpiry (C10 / C06): readers discover expired entries (lazy expiry) while Cleanup sweeps the same shard.
// Each entry leaves once: after quiescence Stats.Expirations equals the number of RemovedExpired notifications, and
// both equal the number of entries written.
func cleanupVsLazyExpiry(m *meta, rng *rand.Rand, round int) {
	pol := pick(rng, []kioshun.EvictionPolicy{kioshun.LRU, kioshun.LFU, kioshun.FIFO, kioshun.SieveTinyLFU})
	ctx := fmt.Sprintf("cleanup vs lazy expiry round %d policy %v", round, pol)
	var notified atomic.Int64
	c, err := kioshun.New[int, int](kioshun.Config{ShardCount: 1, EvictionPolicy: pol, MaxSize: 0, StatsEnabled: true},
		kioshun.WithOnRemove(func(k, v int, r kioshun.RemovalReason) {
			if r == kioshun.RemovedExpired {
				notified.Add(1)
			}
		}))
	must(err)
	watch(ctx)
	defer unwatch()
	const rounds, n = 8, 1500
	for rd := 0; rd < rounds; rd++ {
		for k := 0; k < n; k++ {
			c.Set(rd*n+k, k, time.Millisecond)
		}
		time.Sleep(3 * time.Millisecond)
		var wg sync.WaitGroup
		for g := 0; g < 4; g++ {
			wg.Add(1)
			go func(g int) {
				defer wg.Done()
				for k := g; k < n; k += 4 {
					switch k % 3 {
					case 0:
						c.Get(rd*n + k)
					case 1:
						c.Exists(rd*n + k)
					default:
						c.GetWithTTL(rd*n + k)
					}
				}
			}(g)
		}
		c.Cleanup()
		wg.Wait()
		c.Cleanup()
	}
	c.Sync()
	c.VerifFlushRemovals()
	for t0 := time.Now(); notified.Load() < rounds*n && time.Since(t0) < 2*time.Second; {
		time.Sleep(time.Millisecond)
	}
	st := c.Stats()
	if st.Expirations != notified.Load() || notified.Load() != rounds*n || c.Size() != 0 {
		props := []string{"C10"}
		if notified.Load() != rounds*n {
			props = append(props, "C06")
		}
		for _, p := range props {
			m.violate(p, fmt.Sprintf("%s: %d entries with a 1 ms TTL were written and left to expire while Get / Exists / GetWithTTL raced Cleanup; afterwards Stats.Expirations=%d, RemovedExpired notifications=%d, Size=%d: every entry expires once, is counted once and reported once", ctx, rounds*n, st.Expirations, notified.Load(), c.Size()), ctx)
		}
	}
	c.Close()
	m.count("cleanup_vs_lazy_rounds")
}

// queuedStampProbe (C05): a SetAsync that goes through the ring while its shard lock is busy must still live for its
// whole TTL from the moment it is committed. Under the virtual clock: the harness holds the shard's write lock, the
// SetAsync is queued, the worker dequeues it and blocks on the lock; the clock then advances by 7 s, the lock is
// released, Sync. The clock does not move afterwards, so GetWithTTL must report exactly the TTL that was given.
func queuedStampProbe(m *meta, rng *rand.Rand, round int) {
	pol := pick(rng, []kioshun.EvictionPolicy{kioshun.LRU, kioshun.FIFO, kioshun.LFU, kioshun.SieveTinyLFU})
	ctx := fmt.Sprintf("queued stamp probe round %d policy %v", round, pol)
	kioshun.VerifSetClock(true, 1_000_000_000)
	defer kioshun.VerifSetClock(false, 0)
	c, err := kioshun.New[int, int](kioshun.Config{ShardCount: 1, EvictionPolicy: pol, MaxSize: 64})
	must(err)
	defer c.Close()
	watch(ctx)
	defer unwatch()
	const ttl = 10 * time.Second
	c.VerifHoldShard(0, true)
	held := true
	defer func() {
		if held {
			c.VerifHoldShard(0, false)
		}
	}()
	if err := c.SetAsync(7, 70, ttl); err != nil {
		return
	}
	// wait until the worker has taken the command out of the ring (it then blocks on the shard lock)
	deadline := time.Now().Add(2 * time.Second)
	for time.Now().Before(deadline) {
		head, tail, _, _ := c.VerifRingState(0)
		if head == tail {
			break
		}
		time.Sleep(200 * time.Microsecond)
	}
	time.Sleep(5 * time.Millisecond)
	kioshun.VerifAdvance(int64(7 * time.Second))
	c.VerifHoldShard(0, false)
	held = false
	if err := c.Sync(); err != nil {
		return
	}
	v, rem, ok := c.GetWithTTL(7)
	if !ok || v != 70 {
		m.violate("C05", fmt.Sprintf("%s: SetAsync(7, 70, 10s) queued behind a busy shard lock, clock advanced 7 s before the batch could be applied, then Sync: GetWithTTL = (%d, %v, %v), the entry must be resident", ctx, v, rem, ok), ctx)
	} else if rem != ttl {
		m.violate("C05", fmt.Sprintf("%s: SetAsync(7, 70, 10s) queued behind a busy shard lock, clock advanced 7 s before the batch could be applied, then Sync with the clock standing still: GetWithTTL reports %v remaining, the write committed just now and was given 10s (the lifetime counts from the commit)", ctx, rem), ctx)
	}
	kioshun.VerifAdvance(int64(9 * time.Second))
	if _, ok := c.Get(7); !ok {
		m.violate("C05", fmt.Sprintf("%s: the entry was gone 9 s after its write committed although it was given 10 s", ctx), ctx)
	}
	m.count("queued_stamp_probes")
}

// ttlBoundaryProbe (C05): on the real clock, entries with a 20 us TTL are polled with GetWithTTL until they miss;
// every hit must report a remaining time in [0, ttl] (never negative: -1 means "never expires").
func ttlBoundaryProbe(m *meta, rng *rand.Rand, round int) {
	pol := pick(rng, []kioshun.EvictionPolicy{kioshun.LRU, kioshun.FIFO, kioshun.LFU, kioshun.SieveTinyLFU})
	ctx := fmt.Sprintf("ttl boundary probe round %d policy %v", round, pol)
	c, err := kioshun.New[int, int](kioshun.Config{ShardCount: 1, EvictionPolicy: pol, MaxSize: 64})
	must(err)
	defer c.Close()
	watch(ctx)
	defer unwatch()
	const ttl = 20 * time.Microsecond
	neg, over := 0, 0
	var worst time.Duration
	for i, t0 := 0, time.Now(); i < 1500 && time.Since(t0) < 3*time.Second; i++ {
		c.Set(1, i, ttl)
		for j := 0; j < 100000; j++ {
			_, rem, ok := c.GetWithTTL(1)
			if !ok {
				break
			}
			if rem < 0 {
				neg++
				if rem < worst {
					worst = rem
				}
			}
			if rem > ttl {
				over++
			}
		}
	}
	if neg > 0 || over > 0 {
		m.violate("C05", fmt.Sprintf("%s: Set(1, i, 20us) polled with GetWithTTL until the miss, up to 1500 times: %d hits reported a negative remaining time (worst %v) and %d more than the TTL given; a hit's remaining time lies in [0, ttl] and -1 means 'never expires'", ctx, neg, worst, over), ctx)
	}
	m.count("ttl_boundary_probes")
}

// pairingRace (C11, C05): one writer alternates Set(k, even, 1 ns) and Set(k, odd, 1 h) while four readers call
// GetWithTTL: every hit must pair a value with the deadline of the same write (odd: close to 1 h; even: at most 1 ns),
// and no hit may report a negative remaining time.
// monotonicRace (C02): one writer overwrites key 1 with increasing values through synchronous Set; readers alternate
// Get(other key) / Get(1) or poll key 1 alone. Each reader's own reads of key 1 never decrease and never fall below
// the value whose Set had completed before the Get began; once the writer has stopped, Get(1) is the last value, and
// after a completed Delete(1) it misses. All policies, bounded and unbounded, several resident keys in the one shard.
func monotonicRace(m *meta, rng *rand.Rand, round int) {
	pol := pick(rng, []kioshun.EvictionPolicy{kioshun.SieveTinyLFU, kioshun.SieveTinyLFU, kioshun.LRU, kioshun.FIFO, kioshun.LFU})
	conf := kioshun.Config{MaxSize: pick(rng, []int64{64, 64, 0}), ShardCount: 1, EvictionPolicy: pol}
	ctx := fmt.Sprintf("monotonic race round %d cfg %+v", round, conf)
	c, err := kioshun.New[int, int](conf)
	must(err)
	defer c.Close()
	watch(ctx)
	defer unwatch()
	for k := 2; k < 10; k++ {
		c.Set(k, k, kioshun.NoExpiration)
	}
	var stop atomic.Bool
	var bad, done atomic.Int64
	var wg sync.WaitGroup
	for g := 0; g < 8; g++ {
		wg.Add(1)
		go func(g int) {
			defer wg.Done()
			last := int64(0)
			for i := 0; !stop.Load(); i++ {
				if g < 6 {
					c.Get(2 + (g+i)%8)
				}
				floor := done.Load()
				v, ok := c.Get(1)
				if !ok {
					continue
				}
				if int64(v) < last || int64(v) < floor {
					if bad.Add(1) <= 2 {
						m.violate("C02", fmt.Sprintf("%s: one writer overwrites key 1 with 1,2,3,...; a reader that had read %d (and began after Set(1,%d) had returned) then read %d: reads of one key went backwards / returned a value older than a completed Set", ctx, last, floor, v), ctx)
					}
				}
				last = int64(v)
			}
		}(g)
	}
	n := 0
	for t0 := time.Now(); n < 20000 && bad.Load() == 0 && time.Since(t0) < 300*time.Millisecond; {
		n++
		c.Set(1, n, kioshun.NoExpiration)
		done.Store(int64(n))
	}
	stop.Store(true)
	wg.Wait()
	if bad.Load() == 0 {
		if v, ok := c.Get(1); ok && v != n {
			m.violate("C02", fmt.Sprintf("%s: the writer's last completed Set was (1,%d), nobody writes any more, Get(1)=(%d,true): a value older than a completed Set", ctx, n, v), ctx)
		}
		c.Delete(1)
		{
			if v, ok := c.Get(1); ok {
				m.violate("C02", fmt.Sprintf("%s: Delete(1) completed, nobody writes, Get(1)=(%d,true): a value whose Delete completed before the Get began", ctx, v), ctx)
			}
		}
	}
	m.count("monotonic_race_rounds")
}

func pairingRace(m *meta, rng *rand.Rand, round int) {
	pol := pick(rng, []kioshun.EvictionPolicy{kioshun.SieveTinyLFU, kioshun.SieveTinyLFU, kioshun.LRU, kioshun.FIFO, kioshun.LFU})
	ctx := fmt.Sprintf("pairing race round %d policy %v", round, pol)
	c, err := kioshun.New[int, int](kioshun.Config{MaxSize: 64, ShardCount: 1, EvictionPolicy: pol})
	must(err)
	defer c.Close()
	watch(ctx)
	defer unwatch()
	var stop atomic.Bool
	var bad atomic.Int64
	var wg sync.WaitGroup
	for g := 0; g < 4; g++ {
		wg.Add(1)
		go func() {
			defer wg.Done()
			for !stop.Load() {
				v, rem, ok := c.GetWithTTL(1)
				if !ok {
					continue
				}
				if rem < 0 || (v%2 == 1 && (rem < 59*time.Minute || rem > time.Hour)) || (v%2 == 0 && rem > time.Second) {
					if bad.Add(1) <= 2 {
						for _, p := range []string{"C11", "C05", "C02"} {
							m.violate(p, fmt.Sprintf("%s: writer alternates Set(1, even, 1ns) / Set(1, odd, 1h); a concurrent GetWithTTL(1) returned (v%d, %v): the value of one write with the deadline of another (or a negative remaining time)", ctx, v, rem), ctx)
						}
					}
				}
			}
		}()
	}
	for i, t0 := 0, time.Now(); i < 30000 && bad.Load() == 0 && time.Since(t0) < 2*time.Second; i++ {
		c.Set(1, 2*i, time.Nanosecond)
		c.Set(1, 2*i+1, time.Hour)
	}
	stop.Store(true)
	wg.Wait()
	m.count("pairing_race_rounds")
}

// catchUpStats (C10): a Get that finds its key only by draining a queued SetAsync (the drain token was busy when the
// write was issued, and is free again when the Get arrives) is ONE lookup: Hits + Misses must equal the number of
// Get calls and Hits the number of calls that returned a value.
func catchUpStats(m *meta, rng *rand.Rand, round int) {
	pol := pick(rng, []kioshun.EvictionPolicy{kioshun.SieveTinyLFU, kioshun.SieveTinyLFU, kioshun.LRU, kioshun.LFU})
	ctx := fmt.Sprintf("catch-up stats round %d policy %v", round, pol)
	c, err := kioshun.New[int, int](kioshun.Config{MaxSize: 4096, ShardCount: 1, EvictionPolicy: pol, StatsEnabled: true, WriteBufferSize: 256})
	must(err)
	defer c.Close()
	watch(ctx)
	defer unwatch()
	var gets, found int64
	caughtUp := 0
	for i := 0; i < 300; i++ {
		c.VerifHoldDrain(0, true)
		err := c.SetAsync(i, i, kioshun.NoExpiration) // cannot apply inline: queued
		c.VerifHoldDrain(0, false)
		if err != nil {
			continue
		}
		h, tl, _, _ := c.VerifRingState(0)
		if _, ok := c.Get(i); ok {
			found++
			if h != tl {
				caughtUp++
			}
		}
		gets++
		if i%32 == 31 {
			c.Sync() // the worker's wake-ups all arrived while the harness held the token: drain before the ring fills
		}
	}
	c.Sync()
	st := c.Stats()
	if st.Hits+st.Misses != gets || st.Hits != found {
		m.violate("C10", fmt.Sprintf("%s: 300 rounds of SetAsync(i) issued while the drain token was busy, then Get(i): %d Get calls returned, %d with a value (%d of them while the write was still queued), but Stats reports Hits=%d Misses=%d", ctx, gets, found, caughtUp, st.Hits, st.Misses), ctx)
	}
	m.countN("catch_up_gets", int64(caughtUp))
}

// inlineOvertake (C01, C04): SetAsync(k, v1) is queued because the drain token is busy; the token is released and
// SetAsync(k, v2) follows at once (it may apply inline only if nothing is queued). After Sync the key must hold v2.
func inlineOvertake(m *meta, rng *rand.Rand, round int) {
	pol := pick(rng, []kioshun.EvictionPolicy{kioshun.LRU, kioshun.FIFO, kioshun.LFU, kioshun.SieveTinyLFU})
	ctx := fmt.Sprintf("inline overtake round %d policy %v", round, pol)
	c, err := kioshun.New[int, int](kioshun.Config{MaxSize: 64, ShardCount: 1, EvictionPolicy: pol, WriteBufferSize: 256})
	must(err)
	defer c.Close()
	watch(ctx)
	defer unwatch()
	wrong := 0
	first := ""
	for i := 0; i < 200; i++ {
		v1, v2 := 2*i+1, 2*i+2
		c.VerifHoldDrain(0, true)
		e1 := c.SetAsync(5, v1, kioshun.NoExpiration)
		c.VerifHoldDrain(0, false)
		e2 := c.SetAsync(5, v2, kioshun.NoExpiration)
		if e1 != nil || e2 != nil {
			continue
		}
		c.Sync()
		if v, ok := c.Get(5); !ok || v != v2 {
			wrong++
			if first == "" {
				first = fmt.Sprintf("round %d: SetAsync(5,v%d) [queued: drain token busy], SetAsync(5,v%d), Sync, Get(5) = (v%d,%v)", i, v1, v2, v, ok)
			}
		}
	}
	if wrong > 0 {
		for _, p := range []string{"C01", "C04"} {
			m.violate(p, fmt.Sprintf("%s: %d of 200 rounds ended with the overwritten value; %s: the later accepted write must win", ctx, wrong, first), ctx)
		}
	}
	m.count("inline_overtake_rounds")
}

// closedSetAsync (C08): once Close has returned every SetAsync fails with ErrCacheClosed, also when its inline attempt
// cannot even start (the drain token is busy) and with several callers at once; nothing becomes resident.
func closedSetAsync(m *meta, rng *rand.Rand, round int) {
	pol := pick(rng, []kioshun.EvictionPolicy{kioshun.LRU, kioshun.FIFO, kioshun.LFU, kioshun.SieveTinyLFU})
	ctx := fmt.Sprintf("closed SetAsync round %d policy %v", round, pol)
	c, err := kioshun.New[int, int](kioshun.Config{MaxSize: 64, ShardCount: 1, EvictionPolicy: pol})
	must(err)
	watch(ctx)
	defer unwatch()
	c.Set(1, 1, kioshun.NoExpiration)
	c.Close()
	c.VerifHoldDrain(0, true)
	e1 := c.SetAsync(2, 2, kioshun.NoExpiration)
	c.VerifHoldDrain(0, false)
	if !errors.Is(e1, kioshun.ErrCacheClosed) {
		m.violate("C08", fmt.Sprintf("%s: Close returned, then SetAsync(2,2) issued while the shard's drain token was busy returned %v instead of ErrCacheClosed", ctx, e1), ctx)
	}
	var wg sync.WaitGroup
	var accepted atomic.Int64
	for g := 0; g < 6; g++ {
		wg.Add(1)
		go func(g int) {
			defer wg.Done()
			for i := 0; i < 300; i++ {
				if err := c.SetAsync(10+g, i, kioshun.NoExpiration); !errors.Is(err, kioshun.ErrCacheClosed) {
					accepted.Add(1)
				}
			}
		}(g)
	}
	wg.Wait()
	if n := accepted.Load(); n > 0 {
		m.violate("C08", fmt.Sprintf("%s: after Close returned, %d of 1800 concurrent SetAsync calls (6 goroutines) did not fail with ErrCacheClosed", ctx, n), ctx)
	}
	if n := len(c.Keys()); n != 0 || c.Size() != 0 {
		m.violate("C08", fmt.Sprintf("%s: a closed cache reports %d keys, size %d", ctx, n, c.Size()), ctx)
	}
	m.count("closed_setasync_rounds")
}

// massRemovalProbe (C06): thousands of removals staged in ONE shard before the listener gets to run (a single
// Cleanup sweep over 6000 expired entries; 6000 Deletes while the listener is stalled): every one of them is reported,
// exactly once, however long the backlog.
func massRemovalProbe(m *meta, rng *rand.Rand, round int) {
	pol := pick(rng, []kioshun.EvictionPolicy{kioshun.LRU, kioshun.FIFO, kioshun.SieveTinyLFU, kioshun.LFU})
	stalled := (round/4)%2 == 0
	ctx := fmt.Sprintf("mass removal round %d policy %v stalled-listener=%v", round, pol, stalled)
	const n = 6000
	gate := make(chan struct{})
	var first atomic.Bool
	first.Store(stalled)
	var mu sync.Mutex
	got := map[int]int{}
	shards := pick(rng, []int{1, 1, 128, 256}) // one shard: a deep backlog; many shards: every shard's backlog is drained
	ctx += fmt.Sprintf(" shards=%d", shards)
	c, err := kioshun.New[int, int](kioshun.Config{ShardCount: shards, EvictionPolicy: pol, MaxSize: 0},
		kioshun.WithOnRemove(func(k, v int, r kioshun.RemovalReason) {
			if first.CompareAndSwap(true, false) {
				<-gate
			}
			mu.Lock()
			got[v]++
			mu.Unlock()
		}))
	must(err)
	defer c.Close()
	watch(ctx)
	defer unwatch()
	if stalled {
		c.Set(-1, -1, kioshun.NoExpiration)
		c.Delete(-1) // the listener blocks on this one
		for i := 0; i < n; i++ {
			c.Set(i, i, kioshun.NoExpiration)
		}
		for i := 0; i < n; i++ {
			c.Delete(i)
		}
		close(gate)
	} else {
		close(gate)
		for i := 0; i < n; i++ {
			c.Set(i, i, time.Microsecond)
		}
		time.Sleep(time.Millisecond)
		c.Cleanup() // one sweep stages all of them under the shard lock
	}
	for t0 := time.Now(); time.Since(t0) < 3*time.Second; time.Sleep(500 * time.Microsecond) {
		c.VerifFlushRemovals()
		mu.Lock()
		k := len(got)
		mu.Unlock()
		if k >= n {
			break
		}
	}
	mu.Lock()
	missing, dup := 0, 0
	for i := 0; i < n; i++ {
		switch {
		case got[i] == 0:
			missing++
		case got[i] > 1:
			dup++
		}
	}
	mu.Unlock()
	if missing > 0 || dup > 0 {
		m.violate("C06", fmt.Sprintf("%s: %d entries left the cache (%s); %d of them were never reported to the listener and %d were reported more than once", ctx, n, map[bool]string{true: "Delete while the listener was stalled", false: "one Cleanup sweep"}[stalled], missing, dup), ctx)
	}
	m.count("mass_removal_probes")
}

// closeSyncStorm (C08, C07): many Sync and Clear callers parked on the full rings of a two-shard cache while Close
// runs: every one of them returns (with an error or not) once Close has broadcast shutdown.
// fenceBatchProbe (C07, deterministic set-up): the worker has dequeued a write and waits for the shard lock (held
// by the harness through VerifHoldShard); meanwhile 2..40 callers publish fences (Sync, Clear) that all land in the
// ring, so that the worker's next batch carries many result channels at once. After the lock is released every one of
// those calls must return: each fence of a batch is acknowledged, however many there are.
func fenceBatchProbe(m *meta, rng *rand.Rand, round int) {
	pol := pick(rng, []kioshun.EvictionPolicy{kioshun.LRU, kioshun.SieveTinyLFU, kioshun.FIFO, kioshun.LFU})
	callers := pick(rng, []int{2, 8, 9, 12, 17, 33, 40})
	conf := kioshun.Config{MaxSize: 64, ShardCount: 1, EvictionPolicy: pol, WriteBufferSize: 64, WriteBatchSize: pick(rng, []int{0, 64, 16, 9, 3})}
	ctx := fmt.Sprintf("fence batch round %d cfg %+v callers %d", round, conf, callers)
	c, err := kioshun.New[int, int](conf)
	must(err)
	watch(ctx)
	defer unwatch()
	c.VerifHoldShard(0, true)
	held := true
	defer func() {
		if held {
			c.VerifHoldShard(0, false)
		}
		c.Close()
	}()
	c.SetAsync(1, 1, kioshun.NoExpiration)
	for t0 := time.Now(); c.VerifQueueDepth(0) != 0 && time.Since(t0) < 2*time.Second; {
		time.Sleep(100 * time.Microsecond)
	}
	var returned atomic.Int64
	var wg sync.WaitGroup
	for g := 0; g < callers; g++ {
		wg.Add(1)
		go func(g int) {
			defer wg.Done()
			if g%5 == 4 {
				c.Clear()
			} else {
				c.Sync()
			}
			returned.Add(1)
		}(g)
	}
	for t0 := time.Now(); c.VerifQueueDepth(0) < int64(callers) && time.Since(t0) < 2*time.Second; {
		time.Sleep(100 * time.Microsecond)
	}
	depth := c.VerifQueueDepth(0)
	c.VerifHoldShard(0, false)
	held = false
	done := make(chan struct{})
	go func() { wg.Wait(); close(done) }()
	select {
	case <-done:
		m.count("fence_batch_rounds")
	case <-time.After(5 * time.Second):
		for _, p := range []string{"C07"} {
			m.violate(p, fmt.Sprintf("%s: %d concurrent Sync/Clear calls had published their fences (ring depth %d) behind a worker waiting for the shard lock; 5 s after the lock was released only %d of them have returned: the rest wait for an acknowledgement nobody will send", ctx, callers, depth, returned.Load()), ctx)
		}
	}
}

func closeSyncStorm(m *meta, rng *rand.Rand, round int) {
	pol := pick(rng, []kioshun.EvictionPolicy{kioshun.LRU, kioshun.SieveTinyLFU, kioshun.FIFO, kioshun.LFU})
	ctx := fmt.Sprintf("close/sync storm round %d policy %v", round, pol)
	watch(ctx)
	defer unwatch()
	for it := 0; it < 8; it++ {
		c, err := kioshun.New[int, int](kioshun.Config{MaxSize: 64, ShardCount: 2, EvictionPolicy: pol, WriteBufferSize: 2, WriteBatchSize: 1})
		must(err)
		var wg sync.WaitGroup
		var stop atomic.Bool
		var inflight atomic.Int64
		for g := 0; g < 40; g++ {
			wg.Add(1)
			go func(g int) {
				defer wg.Done()
				for i := 0; !stop.Load(); i++ {
					inflight.Add(1)
					switch {
					case g < 24:
						c.Sync()
					case g < 28:
						c.Clear()
					default:
						c.SetAsync((g*31+i)%64, i, kioshun.NoExpiration)
					}
					inflight.Add(-1)
				}
			}(g)
		}
		time.Sleep(time.Duration(1+rng.Intn(4)) * time.Millisecond)
		c.Close()
		stop.Store(true)
		done := make(chan struct{})
		go func() { wg.Wait(); close(done) }()
		select {
		case <-done:
		case <-time.After(3 * time.Second):
			for _, p := range []string{"C08", "C07"} {
				m.violate(p, fmt.Sprintf("%s: 24 Sync, 4 Clear and 12 SetAsync loopers on a 2-shard cache with rings of 2; Close returned, yet %d calls were still blocked 3 s later (callers blocked at shutdown are released)", ctx, inflight.Load()), ctx)
			}
			return
		}
	}
	m.count("close_sync_storms")
}

// deleteBehindQueue (C01, C04): a SetAsync(k,v2) that was accepted and is still queued (the drain token is busy), then
// Delete(k): the Delete began after the SetAsync returned, so after Sync the key must be gone.
func deleteBehindQueue(m *meta, rng *rand.Rand, round int) {
	pol := pick(rng, []kioshun.EvictionPolicy{kioshun.LRU, kioshun.FIFO, kioshun.SieveTinyLFU, kioshun.LFU})
	ctx := fmt.Sprintf("delete behind queue round %d policy %v", round, pol)
	c, err := kioshun.New[int, int](kioshun.Config{ShardCount: 1, EvictionPolicy: pol, MaxSize: 64})
	must(err)
	watch(ctx)
	defer unwatch()
	resident := rng.Intn(2) == 0
	if resident {
		c.Set(7, 1, kioshun.NoExpiration) // resident and visible
	} else {
		ctx += " (key not yet resident)"
	}
	c.VerifHoldDrain(0, true)
	if e := c.SetAsync(7, 2, kioshun.NoExpiration); e != nil {
		m.violate("C04", ctx+": SetAsync failed", ctx)
	}
	var delRes bool
	done := make(chan struct{})
	go func() { delRes = c.Delete(7); close(done) }()
	select {
	case <-done:
	case <-time.After(2 * time.Millisecond):
	}
	c.VerifHoldDrain(0, false)
	<-done
	c.Sync()
	if v, ok := c.Get(7); ok {
		for _, p := range []string{"C01", "C04"} {
			m.violate(p, fmt.Sprintf("%s: [Set(7,1);] SetAsync(7,2) accepted (queued); Delete(7)=%v; Sync: Get(7) returns %d - a deleted key is served", ctx, delRes, v), ctx)
		}
	}
	if !delRes {
		m.violate("C01", ctx+": Delete(7) returned false although the key was resident (or its accepted write was queued ahead of the Delete)", ctx)
	}
	c.Close()
	m.count("delete_behind_queue_rounds")
}

// doubleClear (C04): Clear, an accepted SetAsync, Clear again, all queued behind a busy drain token so that they land in
// ONE batch: the second Clear must remove the write accepted before it.
func doubleClear(m *meta, rng *rand.Rand, round int) {
	pol := pick(rng, []kioshun.EvictionPolicy{kioshun.LRU, kioshun.FIFO, kioshun.SieveTinyLFU, kioshun.LFU})
	ctx := fmt.Sprintf("double clear round %d policy %v", round, pol)
	c, err := kioshun.New[int, int](kioshun.Config{ShardCount: 1, EvictionPolicy: pol, MaxSize: 64, WriteBatchSize: pick(rng, []int{4, 64})})
	must(err)
	watch(ctx)
	defer unwatch()
	c.Set(1, 1, kioshun.NoExpiration)
	c.VerifHoldDrain(0, true)
	waitHead := func(h0 uint64) {
		for t0 := time.Now(); time.Since(t0) < 2*time.Second; {
			if h, _, _, _ := c.VerifRingState(0); h > h0 {
				return
			}
			runtime.Gosched()
		}
	}
	h0, _, _, _ := c.VerifRingState(0)
	d1 := make(chan struct{})
	go func() { c.Clear(); close(d1) }()
	waitHead(h0)
	if e := c.SetAsync(7, 7, kioshun.NoExpiration); e != nil {
		m.violate("C04", ctx+": SetAsync failed", ctx)
	}
	h1, _, _, _ := c.VerifRingState(0)
	d2 := make(chan struct{})
	go func() { c.Clear(); close(d2) }()
	waitHead(h1)
	c.VerifHoldDrain(0, false)
	<-d1
	<-d2
	if v, ok := c.Get(7); ok || c.Size() != 0 {
		for _, p := range []string{"C04", "C01"} {
			m.violate(p, fmt.Sprintf("%s: Clear, SetAsync(7,7) accepted, Clear again (all queued in one batch): after the second Clear returned Get(7)=(%d,%v), Size=%d (a cleared value is served)", ctx, v, ok, c.Size()), ctx)
		}
	}
	// a Sync barrier followed by a Clear in the same batch: both callers return
	c.VerifHoldDrain(0, true)
	h2, _, _, _ := c.VerifRingState(0)
	s1, s2 := make(chan struct{}), make(chan struct{})
	go func() { c.Sync(); close(s1) }()
	waitHead(h2)
	h3, _, _, _ := c.VerifRingState(0)
	go func() { c.Clear(); close(s2) }()
	waitHead(h3)
	c.VerifHoldDrain(0, false)
	for i, ch := range []chan struct{}{s1, s2} {
		select {
		case <-ch:
		case <-time.After(3 * time.Second):
			for _, p := range []string{"C07", "C04"} {
				m.violate(p, fmt.Sprintf("%s: a Sync barrier and a Clear queued in one batch (drain token busy, then released): %s did not return within 3 s", ctx, []string{"Sync", "Clear"}[i]), ctx)
			}
		}
	}
	c.Close()
	m.count("double_clear_rounds")
}

// flickerProbe replays the schedule of C02.v's c02_atomic_refuted on the real cache through the yield hooks:
// a reader parked after loading a matching tag, the key deleted and re-inserted into the same slot, the
// writer parked between publish's item store and tag store. Finding F10 when it reproduces.
func flickerProbe(m *meta) {
	c, err := kioshun.New[int, int](kioshun.Config{MaxSize: 64, ShardCount: 1, EvictionPolicy: kioshun.SieveTinyLFU})
	must(err)
	defer c.Close()
	const k = 5
	c.Set(k, 1, kioshun.NoExpiration)
	watch("flicker probe")
	defer unwatch()
	kioshun.VerifSchedReset(true, 300*time.Millisecond)
	defer kioshun.VerifSchedReset(false, 0)
	var r1 int
	var ok1 bool
	kioshun.VerifSchedSpawn(1, func() { r1, ok1 = c.Get(k) })
	if p := stepUntil(1, 203); p != 203 {
		m.count("flicker_setup_failed")
		stepUntil(1, -100)
		return
	}
	c.Delete(k)
	kioshun.VerifSchedSpawn(2, func() { c.Set(k, 2, kioshun.NoExpiration) })
	if p := stepUntil(2, 222); p != 222 {
		m.count("flicker_setup_failed")
		stepUntil(2, -100)
		stepUntil(1, -100)
		return
	}
	stepUntil(1, -100)  // reader 1 finishes: loads the item through the stale matching tag
	r2, ok2 := c.Get(k) // reader 2, entirely after reader 1 returned
	stepUntil(2, -100)  // the writer stores the tag and returns
	kioshun.VerifSchedReset(false, 0)
	r3, ok3 := c.Get(k)
	if ok1 && r1 == 2 && !ok2 && ok3 && r3 == 2 {
		m.known("KNOWN-FINDING: property=C02 during ONE in-flight Set(k) that re-inserts k into its old slot, three sequential Gets returned present(2) / absent / present(2): a reader that had loaded the slot's previous matching tag sees the new item before the tag is published (replayed on the real code through the yield hooks; schedule of c02_atomic_refuted)")
	} else {
		m.count("flicker_not_reproduced")
		m.sample(fmt.Sprintf("flicker probe: r1=(%d,%v) r2=(%d,%v) r3=(%d,%v)", r1, ok1, r2, ok2, r3, ok3))
	}
}

// busyNotifierProbe (C07 / C06, deterministic): the removal notifier is parked inside a listener call while further
// removals are staged behind it (the wake token stays latched) and then one maintenance call runs - Clear, Sync,
// Cleanup, a Delete of an absent key, or nothing. When the listener returns, every staged notification must be
// delivered with no further cache traffic: the notifier may not go back to sleep while a shard still holds undelivered
// removals. Counted with the process-wide staged / delivered counters, so the expectation is policy independent.
func busyNotifierProbe(m *meta) {
	pols := []kioshun.EvictionPolicy{kioshun.LRU, kioshun.LFU, kioshun.FIFO, kioshun.SieveTinyLFU}
	acts := []string{"Clear", "Sync", "Cleanup", "Delete(absent)", "nothing", "Clear twice", "Cleanup sweeping 20 expired entries", "600 more removals, then Close"}
	for pi, pol := range pols {
		for ai, act := range acts {
			shards := []int{1, 2}[(pi+ai)%2]
			conf := kioshun.Config{MaxSize: int64(shards), ShardCount: shards, EvictionPolicy: pol}
			if ai >= 6 {
				conf = kioshun.Config{MaxSize: 2048, ShardCount: 1, EvictionPolicy: pol}
			}
			ctx := fmt.Sprintf("busy notifier probe cfg %+v action %s", conf, act)
			entered := make(chan struct{})
			release := make(chan struct{})
			var first atomic.Bool
			staged0, delivered0 := kioshun.VerifStagedCount(), kioshun.VerifDeliveredCount()
			c, err := kioshun.New[int, int](conf, kioshun.WithOnRemove(func(k, v int, r kioshun.RemovalReason) {
				if first.CompareAndSwap(false, true) {
					close(entered)
					<-release
				}
			}))
			must(err)
			watch(ctx)
			if ai == 6 {
				for j := 0; j < 20; j++ {
					c.Set(1000+j, j, time.Millisecond)
				}
			}
			k := 0
			for ; k < 64 && kioshun.VerifStagedCount() == staged0; k++ {
				c.Set(k, k, kioshun.NoExpiration)
				c.Delete(k - 1)
			}
			select {
			case <-entered:
			case <-time.After(3 * time.Second):
				unwatch()
				c.Close()
				m.violate("C07", fmt.Sprintf("%s: a removal was staged (Set/Delete of keys 0..%d) but the listener was not called within 3 s", ctx, k), ctx)
				continue
			}
			for j := 0; j < 6; j++ { // more removals behind the parked notifier
				c.Set(k+j, j, kioshun.NoExpiration)
				c.Delete(k + j - 1)
			}
			switch act {
			case "Clear":
				c.Clear()
			case "Clear twice":
				c.Clear()
				c.Clear()
			case "Sync":
				c.Sync()
			case "Cleanup":
				c.Cleanup()
			case "Delete(absent)":
				c.Delete(-5)
			case "Cleanup sweeping 20 expired entries":
				time.Sleep(3 * time.Millisecond)
				c.Cleanup()
			}
			closed := make(chan struct{})
			if ai == 7 {
				for j := 0; j < 600; j++ {
					c.Set(2000+j, j, kioshun.NoExpiration)
					c.Delete(2000 + j)
				}
				go func() { c.Close(); close(closed) }()
				time.Sleep(2 * time.Millisecond)
			}
			want := kioshun.VerifStagedCount() - staged0
			close(release)
			if ai == 7 {
				select {
				case <-closed:
				case <-time.After(3 * time.Second):
					m.violate("C08", fmt.Sprintf("%s: Close did not return within 3 s after the listener returned", ctx), ctx)
				}
			}
			deadline := time.Now().Add(3 * time.Second)
			for kioshun.VerifDeliveredCount()-delivered0 < want && time.Now().Before(deadline) {
				time.Sleep(time.Millisecond)
			}
			if got := kioshun.VerifDeliveredCount() - delivered0; got != want {
				for _, p := range []string{"C07", "C06"} {
					m.violate(p, fmt.Sprintf("%s: %d removals were staged for the listener while the notifier was busy inside a listener call, then %s ran; 3 s after the listener returned only %d have been delivered and nothing else touches the cache: removals were lost or the notifier sleeps with work pending", ctx, want, act, got), ctx)
				}
			}
			unwatch()
			c.Close()
			m.count("busy_notifier_probes")
		}
	}
}

// listenerCloseProbe: a removal listener that calls Close blocks forever (finding F7).
func listenerCloseProbe(m *meta) {
	var c *kioshun.Cache[int, int]
	done := make(chan struct{})
	c, err := kioshun.New[int, int](kioshun.Config{MaxSize: 2, ShardCount: 1, EvictionPolicy: kioshun.LRU},
		kioshun.WithOnRemove(func(k, v int, r kioshun.RemovalReason) {
			c.Close()
			select {
			case <-done:
			default:
				close(done)
			}
		}))
	must(err)
	c.Set(1, 1, 0)
	c.Set(2, 2, 0)
	c.Set(3, 3, 0) // evicts -> listener -> Close from the notifier goroutine
	select {
	case <-done:
		m.count("listener_close_returned")
	case <-time.After(1500 * time.Millisecond):
		m.known("KNOWN-FINDING: property=C07 a removal listener that calls Close() never returns: Close waits for the notifier goroutine that is running the listener")
		m.known("KNOWN-FINDING: property=C08 Close() called from a removal listener never returns (same self-wait as the C07 finding)")
	}
}

// expiryRace (C07 C05 C02): a short-TTL key re-written while readers hit its expiry path.
func expiryRace(m *meta, rng *rand.Rand, round int) {
	conf := kioshun.Config{MaxSize: pick(rng, []int64{0, 8, 64}), ShardCount: 1, EvictionPolicy: pick(rng, []kioshun.EvictionPolicy{kioshun.SieveTinyLFU, kioshun.SieveTinyLFU, kioshun.LRU, kioshun.FIFO, kioshun.FIFO}), StatsEnabled: true}
	ctx := fmt.Sprintf("expiry race round %d cfg %+v", round, conf)
	var mu sync.Mutex
	seen := map[int]int{} // value -> notifications
	expired, other := 0, 0
	c, err := kioshun.New[int, int](conf, kioshun.WithOnRemove(func(k, v int, r kioshun.RemovalReason) {
		mu.Lock()
		seen[v]++
		if seen[v] == 2 {
			m.violate("C06", fmt.Sprintf("%s: entry (%d,v%d) reported twice (%s)", ctx, k, v, r), ctx)
		}
		if r == kioshun.RemovedExpired {
			expired++
			if v%2 == 1 {
				// odd values are written with a one-hour TTL
				for _, p := range []string{"C05", "C06"} {
					m.violate(p, fmt.Sprintf("%s: entry (%d,v%d), written with a 1 h TTL microseconds ago, was removed and reported as expired", ctx, k, v), ctx)
				}
			}
		} else {
			other++
		}
		mu.Unlock()
	}))
	must(err)
	stop := make(chan struct{})
	var wg sync.WaitGroup
	var pairBad, rdCalls, rdFound atomic.Int64
	watch(ctx)
	for g := 0; g < 6; g++ {
		wg.Add(1)
		go func() {
			defer wg.Done()
			defer func() {
				if p := recover(); p != nil {
					m.violate("C11", fmt.Sprintf("%s: panic in a public call: %v", ctx, p), ctx)
				}
			}()
			for {
				select {
				case <-stop:
					return
				default:
				}
				if _, ok := c.Get(1); ok {
					rdFound.Add(1)
				}
				rdCalls.Add(3)
				// value / deadline pairing: an odd value was written with 1 h, an even one with 120 us
				if v, rem, ok := c.GetWithTTL(1); ok {
					rdFound.Add(1)
					if (v%2 == 1 && (rem <= time.Minute || rem > time.Hour)) || (v%2 == 0 && (rem < 0 || rem > 120*time.Microsecond)) {
						if pairBad.Add(1) <= 2 {
							for _, p := range []string{"C11", "C05", "C02"} {
								m.violate(p, fmt.Sprintf("%s: a reader racing the rewrite got GetWithTTL(1) = (v%d, %v): the value of one write (odd: 1 h, even: 120 us) paired with the deadline of another", ctx, v, rem), ctx)
							}
						}
					}
				}
				if _, _, ok := c.GetWithTTL(2); ok {
					rdFound.Add(1)
				}
				c.Exists(1)
				c.Exists(2)
				c.Exists(4)
				c.Exists(5)
			}
		}()
	}
	missing := 0
	for i, t0 := 0, time.Now(); i < 300 && time.Since(t0) < 20*time.Second; i++ { // time-bounded: on one core the six spinning readers are pre-empted only every 10 ms
		c.Set(1, 2*i, 120*time.Microsecond)
		c.Set(2, 1000000+2*i, 90*time.Microsecond)
		c.Set(4, 2000000+2*i, 100*time.Microsecond)
		c.Set(5, 3000000+2*i, 100*time.Microsecond)
		if i%16 == 0 {
			c.Cleanup()
		}
		time.Sleep(150 * time.Microsecond) // both are expired now; the readers race to discover it
		c.Set(1, 2*i+1, time.Hour)         // rewrite while readers may hold the expired item
		for j := 0; j < 3; j++ {
			runtime.Gosched()
			v, rem, ok := c.GetWithTTL(1)
			rdCalls.Add(1)
			if ok {
				rdFound.Add(1)
			}
			if !ok || v != 2*i+1 || rem <= 0 || rem > time.Hour {
				missing++
				if missing <= 2 {
					m.violate("C05", fmt.Sprintf("%s: Set(1,v%d,1h) returned, nobody else writes or deletes and the cache has room, yet GetWithTTL(1)=(%d,%v,%v)", ctx, 2*i+1, v, rem, ok), ctx)
				}
				break
			}
		}
	}
	close(stop)
	wg.Wait()
	c.Sync()
	// quiescent: wait for the notifier, then the expiry counter must equal the expiry notifications
	var st kioshun.Stats
	for t0 := time.Now(); time.Since(t0) < 2*time.Second; time.Sleep(200 * time.Microsecond) {
		c.VerifFlushRemovals()
		st = c.Stats()
		mu.Lock()
		e := expired
		mu.Unlock()
		if int64(e) == st.Expirations {
			break
		}
	}
	mu.Lock()
	if int64(expired) != st.Expirations {
		m.violate("C10", fmt.Sprintf("%s: Stats().Expirations=%d but %d expiry notifications were delivered (%d others) after quiescence", ctx, st.Expirations, expired, other), ctx)
	}
	mu.Unlock()
	if st.Hits+st.Misses != rdCalls.Load() || st.Hits != rdFound.Load() {
		m.violate("C10", fmt.Sprintf("%s: %d Get/GetWithTTL calls returned (%d with a value) while entries expired under concurrent readers, but Stats reports Hits=%d Misses=%d", ctx, rdCalls.Load(), rdFound.Load(), st.Hits, st.Misses), ctx)
	}
	if err := c.VerifCheckInvariants(); err != nil {
		for _, p := range []string{"C11", "C10"} {
			m.violate(p, fmt.Sprintf("%s: internal structures disagree after concurrent expiry discovery through Get/GetWithTTL/Exists: %v", ctx, err), ctx)
		}
	}
	c.Set(3, 3, 0)
	c.Delete(1)
	c.Sync()
	c.Close()
	unwatch()
	m.count("expiry_race_rounds")
}

// tornRace (C11): one writer rewrites one non-expiring key in a tight loop while readers copy its multi-word value.
// pausedReaderProbe (C11 / C02, deterministic, one goroutine): the lock-free SieveTinyLFU reader copies an item's
// value and deadline AFTER its table lookup, possibly long after (it can be descheduled in between), while the writer
// goes on updating, evicting, rejecting and re-admitting entries. VerifLookup is that lookup; Resume is the copy. Every
// paused read, resumed any number of writes later, must still deliver the pair one single Set stored for ITS key -
// item fields are immutable once an item has been reachable from the table (no pooling or recycling of items).
func pausedReaderProbe(m *meta, rng *rand.Rand, round int) {
	capN := pick(rng, []int64{8, 64, 512, 512})
	conf := kioshun.Config{MaxSize: capN, ShardCount: 1, EvictionPolicy: kioshun.SieveTinyLFU, StatsEnabled: rng.Intn(2) == 0}
	ctx := fmt.Sprintf("paused reader round %d cfg %+v", round, conf)
	c, err := kioshun.New[int, big](conf)
	must(err)
	defer c.Close()
	type paused struct {
		key  int
		id   uint64
		exp  int64
		read kioshun.VerifPausedRead[int, big]
		at   int
	}
	var held []paused
	writes := 0
	id := uint64(0)
	set := func(k int, ttl time.Duration) {
		id++
		writes++
		if err := c.Set(k, mkBig(id<<20|uint64(k), int64(ttl)), ttl); err != nil {
			return
		}
		if pr, ok := c.VerifLookup(k); ok {
			_, v, e := pr.Resume()
			held = append(held, paused{key: k, id: v.id, exp: e, read: pr, at: writes})
			if len(held) > 48 {
				held = held[1:]
			}
		}
	}
	check := func(what string) bool {
		for _, p := range held {
			k, v, e := p.read.Resume()
			if k != p.key || v.id != p.id || e != p.exp || !v.ok() {
				m.violate("C11", fmt.Sprintf("%s: a lock-free Get(%d) located its entry after write #%d (value id %d, deadline %d) and was descheduled; resumed after %s (write #%d) it copies key=%d value id=%d (consistent=%v) deadline=%d out of that entry: a mixture of two writes - the item was modified after it had been published", ctx, p.key, p.at, p.id, p.exp, what, writes, k, v.id, v.ok(), e), ctx)
				m.violate("C02", fmt.Sprintf("%s: a Get(%d) that located its entry at write #%d returns, resumed at write #%d, the value id %d written for key %d", ctx, p.key, p.at, writes, v.id, k), ctx)
				return false
			}
		}
		return true
	}
	n := int(capN)
	for i := 0; i < n; i++ {
		set(i, time.Hour)
	}
	heat := func() {
		for i := 0; i < n; i++ {
			c.Get(i)
		}
	}
	for r := 0; r < 6; r++ {
		heat()
	}
	fresh := 100000
	for step := 0; step < 1200; step++ {
		var what string
		switch x := rng.Intn(20); {
		case x < 12: // a new key, read once right away
			fresh++
			set(fresh, time.Duration(1+rng.Intn(1000))*time.Second)
			c.Get(fresh)
			what = fmt.Sprintf("Set(%d) of a new key", fresh)
		case x < 15: // update of a resident
			k := rng.Intn(n)
			set(k, time.Hour)
			what = fmt.Sprintf("Set(%d) update", k)
		case x < 16:
			k := fresh - rng.Intn(8)
			c.Delete(k)
			what = fmt.Sprintf("Delete(%d)", k)
		case x < 17:
			k := fresh - rng.Intn(8)
			set(k, time.Duration(1+rng.Intn(1000))*time.Second)
			what = fmt.Sprintf("Set(%d) of a recent key", k)
		default:
			heat()
			what = "reads of every hot key"
		}
		if !check(what) {
			break
		}
	}
	m.count("paused_reader_probes")
}

func tornRace(m *meta, rng *rand.Rand, round int) {
	conf := kioshun.Config{MaxSize: pick(rng, []int64{64, 64, 0}), ShardCount: 1, EvictionPolicy: pick(rng, []kioshun.EvictionPolicy{kioshun.SieveTinyLFU, kioshun.SieveTinyLFU, kioshun.LRU, kioshun.FIFO, kioshun.LFU})}
	ctx := fmt.Sprintf("torn race round %d cfg %+v", round, conf)
	c, err := kioshun.New[int, big](conf)
	must(err)
	for i := 0; i < 40; i++ {
		c.Set(100+i, mkBig(uint64(i+1), -1), kioshun.NoExpiration)
	}
	stop := make(chan struct{})
	var wg sync.WaitGroup
	var torn atomic.Int64
	for g := 0; g < 4; g++ {
		wg.Add(1)
		go func() {
			defer wg.Done()
			defer func() {
				if p := recover(); p != nil {
					m.violate("C11", fmt.Sprintf("%s: panic in a public call: %v", ctx, p), ctx)
				}
			}()
			for {
				select {
				case <-stop:
					return
				default:
				}
				if v, ok := c.Get(7); ok && !v.ok() {
					torn.Add(1)
				}
			}
		}()
	}
	watch(ctx)
	rounds := 60000
	if raceBuild {
		rounds = 8000
	}
	for i, t0 := 0, time.Now(); i < rounds && time.Since(t0) < 20*time.Second; i++ {
		c.Set(7, mkBig(uint64(1000+i), -1), kioshun.NoExpiration)
		switch i % 6 {
		case 2:
			c.Delete(7) // the item a reader may be copying from leaves the table ...
		case 4:
			c.Set(2000+i%500, mkBig(uint64(5000000+i), -1), kioshun.NoExpiration) // ... or is displaced by cold traffic
		}
	}
	close(stop)
	wg.Wait()
	unwatch()
	if n := torn.Load(); n > 0 {
		m.violate("C11", fmt.Sprintf("%s: %d lookups returned a value mixing two writes", ctx, n), ctx)
		m.violate("C02", fmt.Sprintf("%s: %d lookups returned a value no single Set supplied", ctx, n), ctx)
	}
	c.Close()
	m.count("torn_race_rounds")
}

// tableRace (C12 C11): the real table, one writer (store/remove/clear/growth) against lock-free readers.
func tableRace(m *meta, rng *rand.Rand, round int) {
	h := kioshun.NewVerifHtable(pick(rng, []int{0, 4}))
	ctx := fmt.Sprintf("table race round %d", round)
	const resident, absent = 1 << 20, 1<<20 + 1
	// resident2 sits BEHIND 300 keys of the same home slot (a long walk for the readers); the writer keeps removing and re-adding those (tombstones
	// in front of it) and rewrites resident2 in place through probe + swapAt, the SieveTinyLFU update path
	const resident2, crowd0, crowdN = 1<<20 + 2, 1<<20 + 10, 300
	hashOf := func(k int) uint64 {
		switch {
		case k == resident:
			return ^uint64(0) // last slot of every table size: copied last by a rebuild
		case k == absent:
			return 7
		case k == resident2 || (k >= crowd0 && k < crowd0+crowdN):
			return 0x5555555555555555
		}
		return uint64(k) * 0x9E3779B97F4A7C15
	}
	h.Store(resident, hashOf(resident), 42)
	for j := 0; j < crowdN; j++ {
		h.Store(crowd0+j, hashOf(crowd0+j), j)
	}
	h.Store(resident2, hashOf(resident2), 43)
	stop := make(chan struct{})
	var wg sync.WaitGroup
	var bad atomic.Int64
	var what atomic.Value
	for r := 0; r < 4; r++ {
		wg.Add(1)
		go func() {
			defer wg.Done()
			defer func() {
				if p := recover(); p != nil {
					bad.Add(1)
					what.Store(fmt.Sprintf("panic in lookup: %v", p))
				}
			}()
			for {
				select {
				case <-stop:
					return
				default:
				}
				if v, ok := h.Lookup(resident, hashOf(resident)); !ok || v != 42 {
					bad.Add(1)
					what.Store(fmt.Sprintf("always-resident key reported (%d,%v)", v, ok))
				}
				if v, ok := h.Lookup(resident2, hashOf(resident2)); !ok || v != 43 {
					bad.Add(1)
					what.Store(fmt.Sprintf("always-resident key behind tombstones, rewritten in place by probe+swapAt, reported (%d,%v)", v, ok))
				}
				if v, ok := h.Lookup(absent, hashOf(absent)); ok {
					bad.Add(1)
					what.Store(fmt.Sprintf("never-inserted key found with value %d", v))
				}
			}
		}()
	}
	watch(ctx)
	n := 20000 + rng.Intn(60000)
	for i, t0 := 0, time.Now(); i < n && time.Since(t0) < 20*time.Second; i++ {
		k := rng.Intn(4096)
		if i%7 == 0 {
			j := crowd0 + rng.Intn(crowdN)
			if rng.Intn(2) == 0 {
				h.Remove(j, hashOf(j))
			} else {
				h.Store(j, hashOf(j), i)
			}
			if found, _ := h.Probe(resident2, hashOf(resident2)); found {
				h.SwapAt(resident2, hashOf(resident2), 43)
			} else {
				h.Unpin()
			}
			continue
		}
		switch rng.Intn(10) {
		case 0, 1, 2, 3, 4, 5:
			h.Store(k, hashOf(k), i)
		case 6, 7, 8:
			h.Remove(k, hashOf(k))
		default:
			if found, _ := h.Probe(k, hashOf(k)); found {
				h.SwapAt(k, hashOf(k), i)
			} else if rng.Intn(2) == 0 {
				h.Publish(k, hashOf(k), i)
			} else {
				h.Unpin()
			}
		}
	}
	close(stop)
	wg.Wait()
	unwatch()
	if bad.Load() > 0 {
		m.violate("C12", fmt.Sprintf("%s: %d bad lookups concurrent with the writer, e.g. %v", ctx, bad.Load(), what.Load()), ctx)
		m.violate("C11", fmt.Sprintf("%s: %d bad lookups concurrent with the writer, e.g. %v", ctx, bad.Load(), what.Load()), ctx)
		m.violate("C02", fmt.Sprintf("%s: %d bad lookups concurrent with the writer, e.g. %v", ctx, bad.Load(), what.Load()), ctx)
	}
	m.count("table_race_rounds")
}

func streamConc(o opts) {
	rng := newRand(o.seed, "conc")
	m := newMeta("conc", o.seed)
	m.Rule = "free-running goroutines (4-12) on shared keys (3-8) with unique multi-word values: Set/SetWithCallback/Get/GetWithTTL/Delete/Exists/Keys/Cleanup/Stats, all policies, tiny capacities, ring 2 / batch 1, re-entrant listeners; async-order rounds (one SetAsync producer per key through a tiny ring, visibility without further calls, Sync/Clear fences); Close races (blocked producers, Sync, Clear, callbacks); one-writer/four-reader races on the real table; per-key histories cut at quiescent points go to the Coq-verified linearizability checker; non-trivial = round whose histories contain overlapping calls on one key; distinct by scenario and configuration"
	w := newTraceWriter(o.out, "conc")
	w.T(sidLin, &toks{})
	rounds := o.n
	for r := 0; r < rounds; r++ {
		switch r % 4 {
		case 0, 1:
			pol := pick(rng, []kioshun.EvictionPolicy{kioshun.LRU, kioshun.LFU, kioshun.FIFO, kioshun.SieveTinyLFU, kioshun.SieveTinyLFU})
			sc := stressCfg{
				conf: kioshun.Config{MaxSize: pick(rng, []int64{0, 2, 4, 8, 64}), ShardCount: pick(rng, []int{1, 2, 4}), EvictionPolicy: pol,
					StatsEnabled: true, WriteBufferSize: pick(rng, []int{2, 4, 256}), WriteBatchSize: pick(rng, []int{1, 2, 64})},
				workers: pick(rng, []int{2, 3, 4, 4 + rng.Intn(9)}), keys: 3 + rng.Intn(10), ops: 300 + rng.Intn(700),
				listeners: rng.Intn(2) == 0, reent: rng.Intn(3) == 0, async: r%4 == 1,
			}
			runStress(m, w, rng, sc, r)
			m.nontrivial(fmt.Sprintf("stress/p%d/m%d/s%d/a%v", pol, sc.conf.MaxSize, sc.conf.ShardCount, sc.async))
		case 2:
			asyncOrder(m, rng, r)
			for j := 0; j < 10; j++ {
				closeRaces(m, rng, r)
			}
			expiryRace(m, rng, r)
			stalledProducer(m, rng, r)
			syncOvertake(m, rng, r)
			syncBehindStalled(m, rng, r)
			syncFence(m, rng, r)
			inlineBehindDequeued(m, rng, r)
			closeNotify(m, rng, r)
			backlogProbe(m, rng, r)
			massRemovalProbe(m, rng, r)
			statsRace(m, rng, r)
			catchUpStats(m, rng, r)
			cleanupRace(m, rng, r)
			cleanupBehindLock(m, rng, r)
			cleanupVsLazyExpiry(m, rng, r)
			queuedStampProbe(m, rng, r)
			ttlBoundaryProbe(m, rng, r)
			deleteBehindQueue(m, rng, r)
			inlineOvertake(m, rng, r)
			closedSetAsync(m, rng, r)
			closeSyncStorm(m, rng, r)
			fenceBatchProbe(m, rng, r)
			fenceBatchProbe(m, rng, r)
			doubleClear(m, rng, r)
			m.nontrivial(fmt.Sprintf("async+close/%d", r%16))
		case 3:
			tableRace(m, rng, r)
			tornRace(m, rng, r)
			pausedReaderProbe(m, rng, r)
			pairingRace(m, rng, r)
			monotonicRace(m, rng, r)
			m.nontrivial(fmt.Sprintf("table/%d", r%16))
		}
		if r < 3 {
			m.sample(fmt.Sprintf("round %d scenario %d", r, r%4))
		}
	}
	flickerProbe(m)
	staleAfterDeleteProbe(m)
	busyNotifierProbe(m)
	listenerCloseProbe(m)
	closeDrainNotifyProbe(m)
	lateDrainProbe(m)
	w.Close()
	m.Traces, m.Ops = w.traces, w.ops+int(m.Dist["stress_calls"])
	m.write(o.out)
}
