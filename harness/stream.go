//go:build verif

package main

import (
	"fmt"
	"os"
)

func runStream(name string, args []string) {
	o := parseOpts(args)
	switch name {
	case "cfg":
		streamCfg(o)
	case "est":
		streamEst(o)
	case "ghost":
		streamGhost(o)
	case "ht":
		streamHt(o)
	case "http":
		streamHTTP(o)
	case "htl":
		streamHtl(o)
	case "ql":
		streamQl(o)
	case "qc":
		streamQc(o)
	case "rb":
		streamRb(o)
	case "nl":
		streamNl(o)
	case "sc":
		streamSc(o)
	case "rgl":
		streamRgl(o)
	case "al":
		streamAl(o)
	case "pl":
		streamPl(o)
	case "reg":
		streamReg(o)
	case "cb":
		streamCb(o)
	case "keys":
		streamKeys(o)
	case "index":
		streamIndex(o)
	case "trie":
		streamTrie(o)
	case "conc":
		streamConc(o)
	case "cache":
		streamCache(o, o.focus)
	default:
		fmt.Fprintf(os.Stderr, "unknown stream %q\n", name)
		os.Exit(2)
	}
}
