//go:build verif

package main

import (
	"fmt"
	"sort"

	"github.com/unkn0wn-root/kioshun"
)

// Stream "ht" (C12, C18): the real htable driven through VerifHtable with caller-chosen
// hashes, compared with HtableModel; monitor = reference Go map.

const sidHt = 12

func streamHt(o opts) {
	r := newRand(o.seed, "ht")
	m := newMeta("ht", o.seed)
	m.Rule = "store/lookup/probe+publish/probe+unpin/probe+swap/remove/remove-stale-object/clear sequences over 4..40 keys whose hashes are drawn from {0,1,2,3, another key's hash, a hash whose home is the last slot, hashes colliding modulo 8/16/32, random}; removals and (rarely) clear between probe and publish; non-trivial = trace with a tombstone reuse, a reclaim, a growth or same-size rehash and a probe-publish with a removal in between; distinct by those four flags + capacity hint"
	w := newTraceWriter(o.out, "ht")
	for t := 0; t < o.n; t++ {
		capHint := pick(r, []int{0, 0, 1, 2, 4, 4, 8, 16})
		pinnedTomb := t%8 == 3
		if pinnedTomb {
			capHint = 2 // the smallest table
		}
		h := kioshun.NewVerifHtable(capHint)
		w.T(sidHt, ints(int64(capHint)))
		nkeys := 4 + r.Intn(36)
		hashes := make([]uint64, nkeys)
		for i := range hashes {
			switch k := r.Intn(10); {
			case k == 0:
				hashes[i] = uint64(r.Intn(4)) // 0,1 are sentinel-valued tags; 2,3 their images
			case k == 1 && i > 0:
				hashes[i] = hashes[r.Intn(i)]
			case k == 2:
				hashes[i] = uint64(8*(1+r.Intn(8)) - 1) // home = last slot of an 8/16/32/64 table
			case k <= 5:
				hashes[i] = uint64(r.Intn(3)) + 8*uint64(r.Intn(64)) // collide modulo small sizes
			case k == 6:
				hashes[i] = ^uint64(0) - uint64(r.Intn(3))
			default:
				hashes[i] = r.Uint64()
			}
		}
		if pinnedTomb {
			// three rounds of: a, b colliding; a candidate c probed behind them (empty-slot cursor, pinned); b evicted
			// between probe and publish (its tombstone sits next to the pin and is not reclaimed); the candidate
			// abandoned; a removed; the table, now empty of live keys, cleared. Afterwards two keys near the end.
			_, _, n, _ := h.Counters()
			nkeys = 12
			hashes = make([]uint64, nkeys)
			for rd := 0; rd < 3; rd++ {
				for j := 0; j < 3; j++ {
					hashes[3*rd+j] = uint64((j+1)*n + 2*rd)
				}
			}
			hashes[9], hashes[10], hashes[11] = uint64(n+n-2), uint64(2*n+n-2), uint64(3*n+n-2)
		}
		longRun := t%8 == 5
		if longRun {
			// more keys in one probe run than any fixed probe budget: 140-270 keys with one hash, then the run's
			// front removed so that a survivor sits behind that many tombstones
			nkeys = 140 + r.Intn(130)
			hashes = make([]uint64, nkeys)
			hv := r.Uint64()
			for k := range hashes {
				hashes[k] = hv
			}
		}
		directed := t%8 == 7
		if directed {
			// hashes laid out for the table's actual size: five keys homed at slot 0, three homed at the last three slots,
			// and a few absent keys homed all over
			_, _, n, _ := h.Counters()
			nkeys = 8 + n
			hashes = make([]uint64, nkeys)
			for k := 0; k < 5; k++ {
				hashes[k] = uint64(n * (k + 1))
			}
			for j := 0; j < 3; j++ {
				hashes[5+j] = uint64(n + n - 3 + j)
			}
			for k := 8; k < nkeys; k++ {
				hashes[k] = uint64(7*n + (k - 8))
			}
		}
		ref := map[int]int{}
		val := 0
		flagReuse, flagReclaim, flagGrow, flagGap := false, false, false, false
		check := func(ctx string) {
			for k := 0; k < nkeys; k++ {
				v, ok := h.Lookup(k, hashes[k])
				rv, rok := ref[k]
				if ok != rok || (ok && v != rv) {
					htViolate(m, fmt.Sprintf("after %s: lookup(key %d) = (%d,%v), reference map has (%d,%v)", ctx, k, v, ok, rv, rok), fmt.Sprintf("ht trace %d", t))
					return
				}
			}
			if h.Len() != len(ref) {
				htViolate(m, fmt.Sprintf("after %s: table length %d, reference map %d", ctx, h.Len(), len(ref)), fmt.Sprintf("ht trace %d", t))
			}
			got := map[int]int{}
			dup := false
			h.ForEach(func(k, v int) {
				if _, d := got[k]; d {
					dup = true
				}
				got[k] = v
			})
			if dup || len(got) != len(ref) {
				htViolate(m, fmt.Sprintf("after %s: forEach visits %d keys (dup=%v), reference map %d", ctx, len(got), dup, len(ref)), fmt.Sprintf("ht trace %d", t))
			}
		}
		obs := func() []int64 { return []int64{int64(h.Len()), 0} }
		removeKey := func(k int) {
			_, tombs0, slots0, _ := h.Counters()
			ok := h.Remove(k, hashes[k])
			if _, in := ref[k]; in != ok {
				htViolate(m, fmt.Sprintf("remove(key %d) = %v but reference map residency is %v", k, ok, in), fmt.Sprintf("ht trace %d", t))
			}
			delete(ref, k)
			_, tombs1, slots1, _ := h.Counters()
			if ok && tombs1 <= tombs0 && slots1 == slots0 {
				flagReclaim = true
			}
			w.O((&toks{}).I(7, int64(k)).U(hashes[k]), (&toks{}).B(ok).I(obs()...))
			m.count("remove")
		}
		storeKey := func(k int) {
			val++
			pv, had := h.Store(k, hashes[k], val)
			rv, rhad := ref[k]
			if had != rhad || (had && pv != rv) {
				htViolate(m, fmt.Sprintf("store(key %d) returned previous (%d,%v), reference (%d,%v)", k, pv, had, rv, rhad), fmt.Sprintf("ht trace %d", t))
			}
			ref[k] = val
			w.O((&toks{}).I(1, int64(k)).U(hashes[k]).I(int64(val)), (&toks{}).B(had).I(int64(pv)).I(obs()...))
			m.count("store")
		}
		if pinnedTomb {
			watch(fmt.Sprintf("ht trace %d (pinned tombstone, abandon, clear)", t))
			for rd := 0; rd < 3; rd++ {
				ka, kb, kc := 3*rd, 3*rd+1, 3*rd+2
				storeKey(ka)
				storeKey(kb)
				found, pv := h.Probe(kc, hashes[kc])
				w.O((&toks{}).I(3, int64(kc)).U(hashes[kc]), (&toks{}).B(found).I(int64(pv)))
				removeKey(kb)
				h.Unpin()
				w.O(ints(6), ints(obs()...))
				removeKey(ka)
				h.Clear()
				ref = map[int]int{}
				w.O(ints(9), ints(obs()...))
				if live, tombs, slots, _ := h.Counters(); live != 0 {
					htViolate(m, fmt.Sprintf("after clear: %d live entries (tombs %d, slots %d)", live, tombs, slots), fmt.Sprintf("ht trace %d", t))
				}
			}
			storeKey(9)
			storeKey(10)
			check("two stores after three probe / evict / abandon / clear rounds")
			v, ok := h.Lookup(11, hashes[11]) // never stored: the walk must find an empty slot
			w.O((&toks{}).I(2, 11).U(hashes[11]), (&toks{}).B(ok).I(int64(v)))
			unwatch()
			m.count("pinned_tomb_traces")
		}
		if longRun {
			watch(fmt.Sprintf("ht trace %d (one probe run of %d keys)", t, nkeys))
			for k := 0; k < nkeys; k++ {
				storeKey(k)
			}
			check("a run of colliding keys was stored")
			for k := 0; k < nkeys; k++ {
				v, ok := h.Lookup(k, hashes[k])
				w.O((&toks{}).I(2, int64(k)).U(hashes[k]), (&toks{}).B(ok).I(int64(v)))
			}
			for k := 0; k < nkeys-1; k++ {
				removeKey(k)
			}
			check("every key of the run but the last was removed")
			v, ok := h.Lookup(nkeys-1, hashes[nkeys-1])
			w.O((&toks{}).I(2, int64(nkeys-1)).U(hashes[nkeys-1]), (&toks{}).B(ok).I(int64(v)))
			unwatch()
			m.count("long_run_traces")
		}
		if directed {
			// tombstone saturation: a run of colliding keys, then repeatedly remove the head of the run (a tombstone that
			// cannot be trimmed) and fill one of the remaining empty slots; a lookup of an absent key must still terminate
			watch(fmt.Sprintf("ht trace %d (tombstone saturation)", t))
			for k := 0; k < 5; k++ {
				storeKey(k)
			}
			for j := 0; j < 3; j++ {
				removeKey(j)
				storeKey(5 + j)
				check(fmt.Sprintf("saturation round %d", j))
			}
			for k := 8; k < nkeys; k++ {
				v, ok := h.Lookup(k, hashes[k])
				w.O((&toks{}).I(2, int64(k)).U(hashes[k]), (&toks{}).B(ok).I(int64(v)))
			}
			unwatch()
			m.count("saturation_traces")
		}
		nops := 40 + r.Intn(260)
		for i := 0; i < nops; i++ {
			k := r.Intn(nkeys)
			val++
			_, tombs0, slots0, _ := h.Counters()
			switch c := r.Intn(100); {
			case c < 30: // store
				pv, had := h.Store(k, hashes[k], val)
				rv, rhad := ref[k]
				if had != rhad || (had && pv != rv) {
					htViolate(m, fmt.Sprintf("store(key %d) returned previous (%d,%v), reference (%d,%v)", k, pv, had, rv, rhad), fmt.Sprintf("ht trace %d", t))
				}
				ref[k] = val
				w.O((&toks{}).I(1, int64(k)).U(hashes[k]).I(int64(val)), (&toks{}).B(had).I(int64(pv)).I(obs()...))
				m.count("store")
			case c < 45: // lookup
				v, ok := h.Lookup(k, hashes[k])
				w.O((&toks{}).I(2, int64(k)).U(hashes[k]), (&toks{}).B(ok).I(int64(v)))
				m.count("lookup")
			case c < 75: // probe, then swap / publish / unpin with removals in between
				found, pv := h.Probe(k, hashes[k])
				w.O((&toks{}).I(3, int64(k)).U(hashes[k]), (&toks{}).B(found).I(int64(pv)))
				if _, in := ref[k]; in != found {
					htViolate(m, fmt.Sprintf("probe(key %d) found=%v, reference residency %v", k, found, in), fmt.Sprintf("ht trace %d", t))
				}
				if found {
					h.SwapAt(k, hashes[k], val)
					ref[k] = val
					w.O((&toks{}).I(4, int64(k)).U(hashes[k]).I(int64(val)), ints(obs()...))
					m.count("probe_swap")
					break
				}
				gap := r.Intn(4)
				for g := 0; g < gap; g++ {
					if r.Intn(12) == 0 {
						h.Clear()
						ref = map[int]int{}
						w.O(ints(9), ints(obs()...))
						m.count("clear_in_gap")
					} else {
						v := r.Intn(nkeys)
						if v != k {
							removeKey(v)
							flagGap = true
						}
					}
				}
				if r.Intn(4) == 0 {
					h.Unpin()
					w.O(ints(6), ints(obs()...))
					m.count("probe_unpin")
				} else {
					h.Publish(k, hashes[k], val)
					ref[k] = val
					w.O((&toks{}).I(5, int64(k)).U(hashes[k]).I(int64(val)), ints(obs()...))
					m.count("probe_publish")
				}
			case c < 90:
				removeKey(k)
			case c < 97: // removeExact with a possibly stale object
				_, in := ref[k]
				v, _ := h.Lookup(k, hashes[k])
				ok, had := h.RemoveLastObject(k)
				// the last created object of k is the resident one exactly when k is resident
				// and no other object replaced it; both sides track the same "last object"
				if ok {
					if !in {
						htViolate(m, fmt.Sprintf("removeExact(stale object of key %d) succeeded although the key is absent", k), fmt.Sprintf("ht trace %d", t))
					}
					_ = v
					delete(ref, k)
				}
				w.O(ints(8, int64(k)), (&toks{}).B(ok).B(had).I(obs()...))
				m.count("remove_last_object")
				// a pointer to the object that was replaced is stale: removeExact must leave the table alone
				k2 := r.Intn(nkeys)
				l0, t0, s0, _ := h.Counters()
				if removed, hadOlder, resident := h.RemoveOlderObject(k2); hadOlder {
					l1, t1, s1, _ := h.Counters()
					if removed || l1 != l0 || t1 != t0 || s1 != s0 {
						htViolate(m, fmt.Sprintf("removeExact(item object of key %d that a later write replaced; the replacing object resident: %v) reported %v and changed the table (live %d->%d, tombstones %d->%d): removal is by item identity", k2, resident, removed, l0, l1, t0, t1), fmt.Sprintf("ht trace %d", t))
					}
					if _, in := ref[k2]; in {
						if _, ok := h.Lookup(k2, hashes[k2]); !ok {
							htViolate(m, fmt.Sprintf("resident key %d lost after removeExact(a stale object of that key)", k2), fmt.Sprintf("ht trace %d", t))
							delete(ref, k2)
						}
					}
					m.count("remove_older_object")
				}
			default:
				h.Clear()
				ref = map[int]int{}
				w.O(ints(9), ints(obs()...))
				m.count("clear")
			}
			_, tombs1, slots1, _ := h.Counters()
			if slots1 != slots0 || (tombs1 == 0 && tombs0 > 2) {
				flagGrow = true
			}
			if tombs1 < tombs0 && slots1 == slots0 && h.Len() > 0 {
				flagReuse = true
			}
			check(fmt.Sprintf("op %d", i))
		}
		if flagReuse && flagGrow && flagGap && flagReclaim {
			m.nontrivial(fmt.Sprintf("c%d/%d", capHint, nkeys/8))
		}
		if t < 3 {
			hs := append([]uint64(nil), hashes...)
			sort.Slice(hs, func(i, j int) bool { return hs[i] < hs[j] })
			m.sample(fmt.Sprintf("capHint=%d keys=%d ops=%d smallest hashes=%v", capHint, nkeys, nops, hs[:4]))
		}
	}
	w.Close()
	m.Traces, m.Ops = w.traces, w.ops
	m.write(o.out)
}

// htViolate reports a table-level disagreement with the reference map under C12 (the table never loses or
// resurrects keys) and C18 (differing keys never disturb each other even when their hashes and tags coincide:
// the traces use colliding, identical and sentinel-valued hashes throughout).
func htViolate(m *meta, what, replay string) {
	m.violate("C12", what, replay)
	m.violate("C18", what, replay)
}
