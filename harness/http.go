//go:build verif

package main

import (
	"bytes"
	"fmt"
	"io"
	"log"
	"math"
	"math/rand"
	"net/http"
	"net/http/httptest"
	"net/http/httptrace"
	"net/textproto"
	"runtime"
	"sort"
	"strconv"
	"strings"
	"sync"
	"sync/atomic"
	"time"

	"github.com/unkn0wn-root/kioshun"
	"github.com/unkn0wn-root/kioshun/httpcache"
)

// Streams "http" (C13, C14) and "trie" (C15): handler scripts interpreted behind a real
// loopback server wrapped by the real middleware, compared with HttpModel; the real
// pattern index compared with HttpTrie.

const (
	sidHTTP = 13
	sidTrie = 15
)

type hact struct {
	kind int // 1 set 2 add 3 del 4 writeheader 5 write 6 flush 7 hijack
	k, v string
	code int
	n    int
	tag  int
	cp   bool // kind 5 only: written with io.Copy from a reader that has no WriteTo (reaches ReadFrom if the writer has one)
}

func strToks(t *toks, s string) {
	t.I(int64(len(s)))
	for i := 0; i < len(s); i++ {
		t.I(int64(s[i]))
	}
}

func (a hact) toks(t *toks) {
	t.I(int64(a.kind))
	switch a.kind {
	case 1, 2:
		strToks(t, a.k)
		strToks(t, a.v)
	case 3:
		strToks(t, a.k)
	case 4:
		t.I(int64(a.code))
	case 5:
		t.I(int64(a.n), int64(a.tag))
	}
}

func (a hact) String() string {
	switch a.kind {
	case 1:
		return fmt.Sprintf("H[%q]=%q", a.k, a.v)
	case 2:
		return fmt.Sprintf("H[%q]+=%q", a.k, a.v)
	case 3:
		return fmt.Sprintf("del H[%q]", a.k)
	case 4:
		return fmt.Sprintf("WriteHeader(%d)", a.code)
	case 5:
		if a.cp {
			return fmt.Sprintf("io.Copy(%dx%d)", a.n, a.tag)
		}
		return fmt.Sprintf("Write(%dx%d)", a.n, a.tag)
	case 6:
		return [...]string{"Flush", "ResponseController.Flush", "FlushError"}[a.n%3]
	}
	return "Hijack"
}

func rle(b []byte) [][2]int {
	var out [][2]int
	for i := 0; i < len(b); {
		j := i
		for j < len(b) && b[j] == b[i] {
			j++
		}
		out = append(out, [2]int{j - i, int(b[i])})
		i = j
	}
	return out
}

func encBody(t *toks, b []byte) {
	r := rle(b)
	t.I(int64(len(r)))
	for _, c := range r {
		t.I(int64(c[0]), int64(c[1]))
	}
}

func encHeader(t *toks, h map[string][]string) {
	keys := make([]string, 0, len(h))
	for k := range h {
		keys = append(keys, k)
	}
	sort.Strings(keys)
	t.I(int64(len(keys)))
	for _, k := range keys {
		strToks(t, k)
		t.I(int64(len(h[k])))
		for _, v := range h[k] {
			strToks(t, v)
		}
	}
}

type clientView struct {
	hijacked bool
	status   int
	hdr      map[string][]string
	body     []byte
	info     int
}

// what the script itself set, canonicalised: used to tell handler-set headers from server-added ones
func scriptSets(acts []hact, name string) bool {
	for _, a := range acts {
		if (a.kind == 1 || a.kind == 2) && textproto.CanonicalMIMEHeaderKey(a.k) == name {
			return true
		}
	}
	return false
}

func doRequest(cl *http.Client, method, url string, acts []hact) (clientView, error) {
	var cv clientView
	req, _ := http.NewRequest(method, url, nil)
	tr := &httptrace.ClientTrace{Got1xxResponse: func(code int, h textproto.MIMEHeader) error { cv.info++; return nil }}
	req = req.WithContext(httptrace.WithClientTrace(req.Context(), tr))
	resp, err := cl.Do(req)
	if err != nil {
		return cv, err
	}
	defer resp.Body.Close()
	cv.status = resp.StatusCode
	if resp.StatusCode != 101 {
		cv.body, _ = io.ReadAll(resp.Body)
	}
	cv.hdr = map[string][]string{}
	for k, v := range resp.Header {
		switch k {
		case "Date", "Content-Length", "Connection", "X-Cache-Date", "X-Cache-Age", "Upgrade":
			continue
		case "Content-Type":
			if !scriptSets(acts, "Content-Type") {
				continue
			}
		}
		cv.hdr[k] = v
	}
	if resp.Header.Get("X-Hijacked") == "1" {
		cv.hijacked = true
	}
	return cv, nil
}

func (cv clientView) toks(t *toks) {
	if cv.hijacked {
		t.I(1)
		return
	}
	t.I(0, int64(cv.status))
	encHeader(t, cv.hdr)
	encBody(t, cv.body)
	t.I(int64(cv.info))
}

func sameView(a, b clientView) bool {
	if a.status != b.status || !bytes.Equal(a.body, b.body) || len(a.hdr) != len(b.hdr) {
		return false
	}
	for k, v := range a.hdr {
		w := b.hdr[k]
		if len(v) != len(w) {
			return false
		}
		for i := range v {
			if v[i] != w[i] {
				return false
			}
		}
	}
	return true
}

func caseFlip(r *rand.Rand, s string) string {
	b := []byte(s)
	for i := range b {
		if r.Intn(2) == 0 {
			if b[i] >= 'a' && b[i] <= 'z' {
				b[i] -= 32
			} else if b[i] >= 'A' && b[i] <= 'Z' {
				b[i] += 32
			}
		}
	}
	return string(b)
}

func ows(r *rand.Rand) string { return pick(r, []string{"", "", " ", "  ", "\t", " \t "}) }

// genCacheControl builds a Cache-Control value from the grammar; forbid reports whether it
// carries no-store / no-cache / private as a real directive; maxAge is the first positive max-age.
// ccNoHuge: set while scripts are generated for a middleware whose TTLs are reconstructed from the stored entry.
var ccNoHuge bool

func genCacheControl(r *rand.Rand) (val string, forbid bool, maxAge int64) {
	n := 1 + r.Intn(4)
	var parts []string
	for i := 0; i < n; i++ {
		switch k := r.Intn(12); {
		case k < 3:
			d := pick(r, []string{"no-store", "no-cache", "private"})
			arg := pick(r, []string{"", "", "=x", "=\"set-cookie\"", "=\"a, b\"", "= y"})
			parts = append(parts, ows(r)+caseFlip(r, d)+ows(r)+arg+ows(r))
			forbid = true
		case k < 6:
			secs := pick(r, []int64{0, 1, 60, 300, 86400, 9223372036, 9223372037, 18446744074, -5})
			if ccNoHuge && secs > 1000000000 {
				secs = 604800 // the TTL is read back from the stored entry there: near-MaxInt64 lifetimes saturate and are indistinguishable
			}
			s := fmt.Sprint(secs)
			if r.Intn(6) == 0 {
				s = pick(r, []string{"abc", "", "1.5", "+30", "1_0", "99999999999999999999"})
			}
			parts = append(parts, ows(r)+caseFlip(r, "max-age")+ows(r)+"="+ows(r)+s+ows(r))
		case k < 8:
			parts = append(parts, ows(r)+pick(r, []string{"public", "must-revalidate", "s-maxage=10", "no-transform", "x-no-store", "no-storex", "privatex=1", "ext=\"q\"", "ext=\"abc", "x=\"a", "y=\"a, b", "z=\"", "w=\"a\\\"b"})+ows(r))
		case k < 9:
			parts = append(parts, ows(r))
		default:
			parts = append(parts, pick(r, []string{"public", "immutable"}))
		}
	}
	return strings.Join(parts, ","), forbid, 0
}

// httpHeadProbe (C13, C14; monitor only): requests the handler-script model does not generate. (1) HEAD responses and a
// 304 that announce a Content-Length different from the bytes written: a hit must replay the same headers; (2) with
// CacheableMethods = [GET] and a key generator that ignores the method, a HEAD request must reach the handler and must
// neither be answered from nor populate the cache.
// expiresUptimeProbe (C13): "otherwise until a future Expires, otherwise for the default TTL" is measured from the moment
// the response is stored, however long the middleware has been alive. A middleware that is 1.3 s old stores (a) a response
// whose Expires lies 2-3 s ahead: it may live no longer than that; (b) a response whose Expires lies 1 s in the past
// (later than the middleware's creation): not a future Expires, so the default TTL governs.
func expiresUptimeProbe(m *meta) {
	mw, err := httpcache.New(httpcache.Config{MaxSize: 100, ShardCount: 1, EvictionPolicy: kioshun.LRU, DefaultTTL: time.Hour, DisableCleanup: true})
	must(err)
	defer mw.Close()
	mw.SetKeyGenerator(httpcache.KeyWithoutQuery())
	var exp string
	h := mw.Wrap(http.HandlerFunc(func(w http.ResponseWriter, rq *http.Request) {
		w.Header().Set("Expires", exp)
		w.WriteHeader(200)
		w.Write([]byte("x"))
	}))
	time.Sleep(1300 * time.Millisecond)
	t0 := time.Now()
	exp = t0.Add(3 * time.Second).UTC().Format(http.TimeFormat)
	h.ServeHTTP(httptest.NewRecorder(), httptest.NewRequest("GET", "/soon", nil))
	if _, rem, ok := mw.VerifPeek("GET:/soon"); time.Since(t0) > time.Second {
		m.count("expires_uptime_probe_too_slow") // the machine stalled: Expires may already have passed when the policy ran
	} else if !ok {
		m.violate("C13", "a plain 200 response with Expires 3 s ahead (no Cache-Control) was not stored by a middleware created 1.3 s earlier", "expires uptime probe")
	} else if rem > 3*time.Second+50*time.Millisecond || rem <= 0 {
		m.violate("C13", fmt.Sprintf("a middleware created 1.3 s earlier stored a response whose Expires (%s) lies at most 3 s ahead with %v left to live: a response governed by Expires lives until that instant, measured when it is stored", exp, rem), "expires uptime probe")
	}
	exp = time.Now().Add(-1 * time.Second).UTC().Format(http.TimeFormat)
	h.ServeHTTP(httptest.NewRecorder(), httptest.NewRequest("GET", "/past", nil))
	if _, rem, ok := mw.VerifPeek("GET:/past"); ok && (rem < time.Hour-10*time.Second || rem > time.Hour) {
		m.violate("C13", fmt.Sprintf("a middleware created 1.3 s earlier stored a response whose Expires (%s) lies in the past with %v left to live: a past Expires is not a future Expires, the default TTL (1h) governs", exp, rem), "expires uptime probe")
	}
	m.count("expires_uptime_probe")
}

func httpHeadProbe(m *meta) {
	same := func(a, b http.Header, skip map[string]bool) (string, bool) {
		for k, v := range a {
			if skip[k] {
				continue
			}
			if w := b[k]; strings.Join(v, "|") != strings.Join(w, "|") {
				return fmt.Sprintf("%s: origin %q, hit %q", k, v, w), false
			}
		}
		for k := range b {
			if !skip[k] && a[k] == nil {
				return fmt.Sprintf("%s: only on the hit", k), false
			}
		}
		return "", true
	}
	skip := map[string]bool{"X-Cache": true, "X-Cache-Date": true, "X-Cache-Age": true, "Date": true}
	// (1)
	mw, err := httpcache.New(httpcache.Config{MaxSize: 100, ShardCount: 1, EvictionPolicy: kioshun.LRU, DefaultTTL: time.Hour, DisableCleanup: true, CacheableStatus: []int{200, 304}})
	must(err)
	calls := 0
	h := mw.Wrap(http.HandlerFunc(func(w http.ResponseWriter, rq *http.Request) {
		calls++
		w.Header().Set("Content-Length", "1234")
		w.Header().Set("X-Cache-Tags", "t1")
		if rq.URL.Path == "/nm" {
			w.WriteHeader(http.StatusNotModified)
			return
		}
		w.WriteHeader(http.StatusOK)
	}))
	for _, rq := range [][2]string{{"HEAD", "/head"}, {"GET", "/nm"}} {
		first, second := httptest.NewRecorder(), httptest.NewRecorder()
		h.ServeHTTP(first, httptest.NewRequest(rq[0], rq[1], nil))
		h.ServeHTTP(second, httptest.NewRequest(rq[0], rq[1], nil))
		if second.Header().Get("X-Cache") == "HIT" {
			if first.Code != second.Code {
				m.violate("C14", fmt.Sprintf("%s %s: origin status %d, hit status %d", rq[0], rq[1], first.Code, second.Code), "head probe")
			}
			if d, ok := same(first.Header(), second.Header(), skip); !ok {
				m.violate("C14", fmt.Sprintf("%s %s (handler announces Content-Length 1234 and writes no body): hit headers differ from the origin response: %s", rq[0], rq[1], d), "head probe")
			}
			m.count("head_probe_hits")
		}
	}
	mw.Close()
	// (1b) behind a real server: a handler that suppresses Content-Type sniffing with a value-less key
	// (w.Header()["Content-Type"] = nil) and one that sets an empty value; the hit must look the same to the client
	{
		mw, err := httpcache.New(httpcache.Config{MaxSize: 100, ShardCount: 1, EvictionPolicy: kioshun.LRU, DefaultTTL: time.Hour, DisableCleanup: true})
		must(err)
		srv := httptest.NewServer(mw.Wrap(http.HandlerFunc(func(w http.ResponseWriter, rq *http.Request) {
			switch rq.URL.Path {
			case "/nosniff":
				w.Header()["Content-Type"] = nil
			case "/emptyval":
				w.Header()["X-Empty"] = []string{""}
				w.Header()["X-None"] = []string{}
			}
			w.Write([]byte("<html><body>hello</body></html>"))
		})))
		for _, path := range []string{"/nosniff", "/emptyval"} {
			var views [2]http.Header
			var marks [2]string
			for i := 0; i < 2; i++ {
				resp, err := http.Get(srv.URL + path)
				if err != nil {
					break
				}
				io.Copy(io.Discard, resp.Body)
				resp.Body.Close()
				views[i], marks[i] = resp.Header, resp.Header.Get("X-Cache")
			}
			if marks[1] == "HIT" {
				if d, ok := same(views[0], views[1], skip); !ok {
					m.violate("C14", fmt.Sprintf("GET %s behind a real server (handler sets a header key with no value / an empty value, body looks like HTML): hit headers differ from the origin response: %s", path, d), "sniff probe")
				}
				m.count("sniff_probe_hits")
			}
		}
		srv.Close()
		mw.Close()
	}
	// (2)
	mw2, err := httpcache.New(httpcache.Config{MaxSize: 100, ShardCount: 1, EvictionPolicy: kioshun.LRU, DefaultTTL: time.Hour, DisableCleanup: true, CacheableMethods: []string{"GET"}})
	must(err)
	mw2.SetKeyGenerator(func(r *http.Request) string { return r.URL.String() })
	n := 0
	h2 := mw2.Wrap(http.HandlerFunc(func(w http.ResponseWriter, rq *http.Request) { n++; w.Write([]byte("body")) }))
	h2.ServeHTTP(httptest.NewRecorder(), httptest.NewRequest("GET", "/x", nil))
	before := n
	rec := httptest.NewRecorder()
	h2.ServeHTTP(rec, httptest.NewRequest("HEAD", "/x", nil))
	if n != before+1 || rec.Header().Get("X-Cache") != "" {
		m.violate("C13", fmt.Sprintf("CacheableMethods=[GET]: a HEAD request was handled by the cache (handler reached: %v, X-Cache=%q); a method that is not configured as cacheable must bypass it", n == before+1, rec.Header().Get("X-Cache")), "head probe")
	}
	mw2.Close()
	m.count("head_probes")
}

func streamHTTP(o opts) {
	r := newRand(o.seed, "http")
	m := newMeta("http", o.seed)
	m.Rule = "handler scripts (header edits with canonical and non-canonical key spellings, several field lines, WriteHeader incl. 1xx/101/non-cacheable statuses, several writes crossing and landing exactly on the body limit, Flush, Hijack) behind a real loopback server and the real middleware; Cache-Control values generated from the grammar (case flips, OWS, position, =token, =\"quoted, with commas\", overflowing max-age) plus a malformed stream; each script: 1 miss + 2 hits with map/slice mutation in between; non-trivial = script with a 1xx or a header edit after commit or a body landing on the limit or a forbidding directive on a second field line; distinct by those flags + status"
	w := newTraceWriter(o.out, "http")
	nmw := 1 + o.n/75
	per := (o.n + nmw - 1) / nmw
	seq := 0
	for mi := 0; mi < nmw; mi++ {
		maxBody := pick(r, []int64{8, 16, 64})
		cfg := httpcache.Config{
			MaxSize: 100000, ShardCount: 4, EvictionPolicy: kioshun.LRU, DefaultTTL: time.Hour + 1,
			MaxBodySize: maxBody, DisableCleanup: true,
			IgnoreHeaders: pick(r, [][]string{nil, {"Date", "Server", "x-request-id"}, {"Set-Cookie"}, {"Cache-Control", "Date"}, {"expires", "cache-control"}}),
		}
		if r.Intn(5) == 0 {
			cfg.DisableBodySizeLimit = true
		}
		switch r.Intn(6) {
		case 0, 1:
			cfg.CacheableStatus = []int{200, 404}
		case 2:
			cfg.CacheableStatus = []int{} // configured, and empty: no status is cacheable
		}
		// every third middleware keeps the policy New installed (the configuration resolved inside New); the TTL is
		// then read back from the stored entry instead of from a wrapping policy
		ownPolicy := mi%3 == 2
		ccNoHuge = ownPolicy
		if ownPolicy && (mi/3)%2 == 0 {
			cfg.CacheableStatus = []int{} // resolved twice inside New (config, then the policy built from it)
		}
		mw, err := httpcache.New(cfg)
		must(err)
		mw.SetKeyGenerator(httpcache.KeyWithoutQuery())
		def := httpcache.DefaultCachePolicy(cfg)
		var polMu sync.Mutex
		var polOK bool
		var polTTL time.Duration
		var polCalled bool
		if !ownPolicy {
			mw.SetCachePolicy(func(req *http.Request, st int, h http.Header, body []byte) (bool, time.Duration) {
				ok, ttl := def(req, st, h, body)
				polMu.Lock()
				polOK, polTTL, polCalled = ok, ttl, true
				polMu.Unlock()
				return ok, ttl
			})
		}
		scripts := map[string][]hact{}
		retainedS := map[string][][]string{}
		retainedB := map[string][][]byte{}
		calls := map[string]int{}
		var smu sync.Mutex
		handler := http.HandlerFunc(func(rw http.ResponseWriter, req *http.Request) {
			smu.Lock()
			acts := scripts[req.URL.Path]
			calls[req.URL.Path]++
			smu.Unlock()
			for _, a := range acts {
				switch a.kind {
				case 1:
					vals := []string{a.v}
					rw.Header()[a.k] = vals
					smu.Lock()
					retainedS[req.URL.Path] = append(retainedS[req.URL.Path], vals)
					smu.Unlock()
				case 2:
					rw.Header()[a.k] = append(rw.Header()[a.k], a.v)
				case 3:
					delete(rw.Header(), a.k)
				case 4:
					rw.WriteHeader(a.code)
				case 5:
					buf := bytes.Repeat([]byte{byte(a.tag)}, a.n)
					if a.cp {
						io.Copy(rw, io.LimitReader(bytes.NewReader(buf), int64(len(buf))))
					} else {
						rw.Write(buf)
					}
					smu.Lock()
					retainedB[req.URL.Path] = append(retainedB[req.URL.Path], buf)
					smu.Unlock()
				case 6:
					// three ways a handler can flush: http.Flusher, the FlushError method, http.ResponseController
					switch a.n {
					case 1:
						http.NewResponseController(rw).Flush()
					case 2:
						if f, ok := rw.(interface{ FlushError() error }); ok {
							f.FlushError()
						} else if f, ok := rw.(http.Flusher); ok {
							f.Flush()
						}
					default:
						if f, ok := rw.(http.Flusher); ok {
							f.Flush()
						}
					}
				case 7:
					if hj, ok := rw.(http.Hijacker); ok {
						conn, brw, err := hj.Hijack()
						if err == nil {
							brw.WriteString("HTTP/1.1 200 OK\r\nX-Hijacked: 1\r\nContent-Length: 2\r\nConnection: close\r\n\r\nhj")
							brw.Flush()
							conn.Close()
							return
						}
					}
				}
			}
		})
		// every second middleware sits behind an outer handler that pre-sets a response header (CORS / security-header
		// middleware in front of the cache): the snapshot taken on a miss contains it, and a hit must REPLACE it
		outer := mi%2 == 1
		var root http.Handler = mw.Wrap(handler)
		if outer {
			inner := root
			root = http.HandlerFunc(func(rw http.ResponseWriter, req *http.Request) {
				rw.Header()["X-Outer"] = []string{"o1"}
				inner.ServeHTTP(rw, req)
			})
		}
		srv := httptest.NewUnstartedServer(root)
		srv.Config.ErrorLog = log.New(io.Discard, "", 0)
		srv.Start()
		cl := &http.Client{Timeout: 10 * time.Second, CheckRedirect: func(*http.Request, []*http.Request) error { return http.ErrUseLastResponse }}
		// model configuration
		cf := &toks{}
		cf.I(2, 1, 4) // cacheable methods GET=1, HEAD=4
		resolved := httpcache.DefaultConfig().CacheableStatus
		if cfg.CacheableStatus != nil {
			resolved = cfg.CacheableStatus
		}
		cf.I(int64(len(resolved)))
		for _, s := range resolved {
			cf.I(int64(s))
		}
		cf.B(!cfg.DisableBodySizeLimit).I(maxBody, int64(cfg.DefaultTTL))
		ign := cfg.IgnoreHeaders
		if ign == nil {
			ign = httpcache.DefaultConfig().IgnoreHeaders
		}
		ign = append(append([]string{}, ign...), "X-Cache", "X-Cache-Date", "X-Cache-Age")
		cf.I(int64(len(ign)))
		for _, s := range ign {
			strToks(cf, s)
		}
		strToks(cf, "X-Cache")
		strToks(cf, "X-Cache")
		w.T(sidHTTP, cf)

		type revisitT struct {
			path string
			view clientView
			acts []hact
		}
		var revisit []revisitT
		for si := 0; si < per; si++ {
			seq++
			path := fmt.Sprintf("/s%d", seq)
			var acts []hact
			flagInfo, flagLate, flagLimit, flagSecondLine := false, false, false, false
			forbid := false
			method := "GET"
			if r.Intn(8) == 0 {
				method = pick(r, []string{"POST", "PUT"})
			}
			status := pick(r, []int{200, 200, 200, 201, 404, 500, 301, 410, 403})
			if outer {
				acts = append(acts, hact{kind: 1, k: "X-Outer", v: "o1"}) // what the outer handler did before the cache ran
			}
			// headers before commit
			nh := r.Intn(4)
			if r.Intn(8) == 0 {
				// an Expires line alone decides the lifetime (no Cache-Control): past, future, or malformed
				acts = append(acts, hact{kind: 1, k: "Expires", v: pick(r, []string{time.Now().Add(-2 * time.Hour).UTC().Format(time.RFC1123), time.Now().Add(-2 * time.Hour).UTC().Format(time.RFC1123), time.Now().Add(2 * time.Hour).UTC().Format(time.RFC1123), "garbage", "Thu, 01 Jan 1970 00:00:00 GMT"})})
				nh = 0
			}
			for i := 0; i < nh; i++ {
				switch r.Intn(6) {
				case 0, 1:
					cc, fb, _ := genCacheControl(r)
					key := pick(r, []string{"Cache-Control", "Cache-Control", "cache-control", "CACHE-CONTROL", "Cache-control"})
					kind := pick(r, []int{1, 2, 2})
					acts = append(acts, hact{kind: kind, k: key, v: cc})
					if fb && i > 0 {
						flagSecondLine = true
					}
				case 2:
					acts = append(acts, hact{kind: 1, k: pick(r, []string{"Content-Type", "X-Custom", "Set-Cookie", "Server", "X-Request-Id", "x-lower", "X-Lower", "X-Cache-Tags", "X-Cacheable"}), v: pick(r, []string{"text/plain", "a=1", "v"})})
				case 3:
					acts = append(acts, hact{kind: 2, k: "X-Multi", v: fmt.Sprint(r.Intn(9))})
				case 4:
					acts = append(acts, hact{kind: 1, k: "Expires", v: pick(r, []string{time.Now().Add(2 * time.Hour).UTC().Format(time.RFC1123), time.Now().Add(-2 * time.Hour).UTC().Format(time.RFC1123), "garbage"})})
				case 5:
					acts = append(acts, hact{kind: 3, k: "X-Custom"})
				}
				// an origin handler that touches the marker header itself (a gateway passing on an upstream X-Cache,
				// or a handler wiping it): the middleware's own MISS / HIT markers win
				if method == "GET" && r.Intn(12) == 0 {
					if r.Intn(3) == 0 {
						acts = append(acts, hact{kind: 3, k: "X-Cache"})
					} else {
						acts = append(acts, hact{kind: 1, k: "X-Cache", v: pick(r, []string{"HIT from edge-7", "v"})})
					}
				}
			}
			streamed := false
			shape := r.Intn(12)
			lateDel := shape == 11
			if lateDel {
				// committed WITH a forbidding directive, which a clean-up path deletes from the header map afterwards
				acts = append(acts, hact{kind: 1, k: "Cache-Control", v: pick(r, []string{"no-store", "private", "max-age=60, no-cache"})})
				status = 200
				shape = 5
			}
			if shape == 0 {
				acts = append(acts, hact{kind: 4, code: 103})
				flagInfo = true
				if r.Intn(2) == 0 {
					cc, _, _ := genCacheControl(r)
					acts = append(acts, hact{kind: 2, k: "Cache-Control", v: cc})
				} else {
					acts = append(acts, hact{kind: 1, k: "X-After-Info", v: "1"})
				}
			}
			if shape == 1 {
				acts = append(acts, hact{kind: 7})
				streamed = true
			} else {
				if shape == 7 { // flush before any Write/WriteHeader (the SSE pattern): implicit 200 sent by the flush
					acts = append(acts, hact{kind: 6, n: r.Intn(3)})
					streamed = true
					status = 200
				} else if shape != 2 { // shape 2: implicit status
					acts = append(acts, hact{kind: 4, code: status})
				} else {
					status = 200
				}
				if shape == 3 {
					acts = append(acts, hact{kind: 4, code: pick(r, []int{500, 404, 201, 200, 410})}) // superfluous second status: ignored by net/http, must be ignored by the snapshot too
				}
				if shape == 4 {
					acts = append(acts, hact{kind: 6, n: r.Intn(3)})
					streamed = true
				}
				// body: several writes, sometimes landing exactly on the limit
				nw := r.Intn(4)
				total := 0
				for i := 0; i < nw; i++ {
					n := r.Intn(int(maxBody))
					if r.Intn(4) == 0 && int(maxBody)-total > 0 {
						n = int(maxBody) - total
						flagLimit = true
					}
					if r.Intn(10) == 0 {
						n = 0
					}
					total += n
					acts = append(acts, hact{kind: 5, n: n, tag: 65 + len(acts)%50, cp: n > 0 && r.Intn(5) == 0})
				}
				if shape == 5 {
					if lateDel || r.Intn(3) == 0 {
						// a clean-up path that deletes the directive AFTER the response was committed with it
						dk := pick(r, []string{"Cache-Control", "Cache-control", "Expires"})
						if lateDel {
							dk = "Cache-Control"
						}
						acts = append(acts, hact{kind: 3, k: dk})
					} else {
						acts = append(acts, hact{kind: 1, k: pick(r, []string{"X-Late", "Cache-Control", "Set-Cookie"}), v: pick(r, []string{"late", "no-store"})})
					}
					acts = append(acts, hact{kind: 5, n: 1 + r.Intn(3), tag: 65 + len(acts)%50})
					flagLate = true
				}
				if shape == 6 {
					acts = append(acts, hact{kind: 6, n: r.Intn(3)})
					streamed = true
				}
			}
			// the property's own oracle: does the header snapshot taken at the final status carry a forbidding directive?
			snap := map[string][]string{}
			for _, a := range acts {
				if (a.kind == 4 && (a.code < 100 || a.code > 199 || a.code == 101)) || a.kind == 5 || a.kind == 6 || a.kind == 7 {
					break
				}
				switch a.kind {
				case 1:
					snap[a.k] = []string{a.v}
				case 2:
					snap[a.k] = append(snap[a.k], a.v)
				case 3:
					delete(snap, a.k)
				}
			}
			for k, vs := range snap {
				if strings.EqualFold(k, "cache-control") {
					for _, v := range vs {
						if _, f := ccForbids(v); f {
							forbid = true
						}
					}
				}
			}
			smu.Lock()
			scripts[path] = acts
			smu.Unlock()
			// Expires oracle: what the policy would see on the snapshot
			ek, et := int64(0), int64(0)
			for _, a := range acts {
				if a.kind == 4 && (a.code < 100 || a.code > 199 || a.code == 101) {
					break
				}
				if a.kind == 5 || a.kind == 6 || a.kind == 7 {
					break
				}
				if (a.kind == 1) && a.k == "Expires" {
					if tm, err := time.Parse(time.RFC1123, a.v); err == nil {
						ek = 1
						if time.Until(tm) > 0 {
							et = int64(2 * time.Hour)
						} else {
							et = -1
						}
					} else {
						ek = 0
					}
				}
			}
			mid := int64(1)
			if method == "POST" {
				mid = 2
			} else if method == "PUT" {
				mid = 3
			}
			op := ints(1, mid, ek, et)
			for _, a := range acts {
				a.toks(op)
			}
			polMu.Lock()
			polCalled = false
			polMu.Unlock()
			watch("http request " + path)
			first, err := doRequest(cl, method, srv.URL+path, acts)
			unwatch()
			if err != nil {
				m.violate("C14", fmt.Sprintf("request failed: %v (script %v)", err, acts), path)
				continue
			}
			obs := &toks{}
			key := method + ":" + path
			resp, rem, stored := mw.VerifPeek(key)
			polMu.Lock()
			pOK, pTTL, pCalled := polOK, polTTL, polCalled
			polMu.Unlock()
			if !ownPolicy && stored && pTTL <= 0 {
				m.violate("C13", fmt.Sprintf("the policy stored a response with TTL %v (must be a positive max-age, the time to a future Expires, or the default TTL): script=%v", pTTL, acts), path)
			}
			if ownPolicy {
				// reconstruct the TTL the internal policy chose from what is left of it (whole seconds for max-age)
				pOK, pCalled = stored, stored
				switch {
				case !stored:
				case rem < 0:
					pTTL = -1
					m.violate("C13", fmt.Sprintf("a response was stored without an expiry (must live for max-age, a future Expires or the default TTL): script=%v", acts), path)
				case rem > cfg.DefaultTTL-10*time.Second && rem <= cfg.DefaultTTL:
					pTTL = cfg.DefaultTTL
				case rem > 2*time.Hour-time.Minute && rem <= 2*time.Hour:
					pTTL = 2*time.Hour - time.Second
				case rem > time.Duration(math.MaxInt64)-time.Hour:
					pTTL = time.Duration(math.MaxInt64) // the clamped max-age: the deadline saturates
				default:
					secs := int64(rem / time.Second)
					if rem%time.Second != 0 {
						secs++
					}
					pTTL = time.Duration(secs) * time.Second
				}
			}
			var second, third clientView
			if stored {
				kind := int64(1)
				ttl := int64(pTTL)
				switch {
				case pTTL == cfg.DefaultTTL:
					kind = 3
				case ek == 1 && et > 0 && pTTL > 2*time.Hour-time.Minute && pTTL <= 2*time.Hour:
					kind, ttl = 2, 0
				}
				obs.I(1, kind, ttl, int64(resp.StatusCode))
				encHeader(obs, resp.Headers)
				encBody(obs, resp.Body)
				first.toks(obs)
				watch("http hit " + path)
				second, _ = doRequest(cl, method, srv.URL+path, acts)
				// attack isolation: mutate every slice the handler passed in and kept
				smu.Lock()
				for _, sl := range retainedS[path] {
					for i := range sl {
						sl[i] = "MUTATED-BY-HANDLER"
					}
				}
				for _, b := range retainedB[path] {
					for i := range b {
						b[i] = '!'
					}
				}
				smu.Unlock()
				third, _ = doRequest(cl, method, srv.URL+path, acts)
				unwatch()
				obs.I(int64(second.status))
				encHeader(obs, second.hdr)
				encBody(obs, second.body)
			} else {
				obs.I(0)
				first.toks(obs)
				watch("http second " + path)
				second, _ = doRequest(cl, method, srv.URL+path, acts)
				unwatch()
			}
			w.O(op, obs)
			m.count("script")
			if stored {
				m.count("stored")
			}
			// ---- monitors
			smu.Lock()
			ncalls := calls[path]
			smu.Unlock()
			cacheableStatus := false
			for _, s := range resolved {
				cacheableStatus = cacheableStatus || s == first.status
			}
			must_not := method != "GET" || !cacheableStatus || streamed || forbid ||
				(!cfg.DisableBodySizeLimit && int64(len(first.body)) > maxBody && !first.hijacked)
			if must_not && (stored || ncalls < 2 || second.hdr["X-Cache"] != nil && second.hdr["X-Cache"][0] == "HIT") {
				m.violate("C13", fmt.Sprintf("response that must not be cached was stored/replayed: method=%s status=%d streamed=%v forbid=%v body=%d limit=%d stored=%v handlerCalls=%d script=%v", method, first.status, streamed, forbid, len(first.body), maxBody, stored, ncalls, acts), path)
			}
			if method != "GET" && (pCalled || first.hdr["X-Cache"] != nil) {
				m.violate("C13", fmt.Sprintf("non-cacheable method %s consulted the cache (policy called=%v, marker=%v)", method, pCalled, first.hdr["X-Cache"]), path)
			}
			_ = pOK
			if stored {
				// C14: the hit equals the origin response minus ignored headers and markers
				want := clientView{status: first.status, body: first.body, hdr: map[string][]string{}}
				for k, v := range first.hdr {
					skip := k == "X-Cache"
					for _, ig := range ign {
						if strings.EqualFold(ig, k) {
							skip = true
						}
					}
					if !skip {
						want.hdr[k] = v
					}
				}
				got := clientView{status: second.status, body: second.body, hdr: map[string][]string{}}
				for k, v := range second.hdr {
					if k != "X-Cache" {
						got.hdr[k] = v
					}
				}
				if !sameView(want, got) {
					m.violate("C14", fmt.Sprintf("hit differs from origin response: origin(status %d hdr %v body %v) hit(status %d hdr %v body %v) script=%v", want.status, want.hdr, rle(want.body), got.status, got.hdr, rle(got.body), acts), path)
				}
				if xs := second.hdr["X-Cache"]; len(xs) != 1 || xs[0] != "HIT" {
					m.violate("C14", fmt.Sprintf("hit not marked HIT: %v", xs), path)
				}
				if xs := first.hdr["X-Cache"]; len(xs) != 1 || xs[0] != "MISS" {
					m.violate("C14", fmt.Sprintf("miss not marked MISS: %v (script %v)", xs, acts), path)
				}
				if !sameView(second, third) {
					m.violate("C14", fmt.Sprintf("second hit differs from first hit after header/body mutation by the harness: %v vs %v", second.hdr, third.hdr), path)
				}
				if method == "GET" && len(revisit) < 40 {
					revisit = append(revisit, revisitT{path, second, acts})
				}
				if ncalls != 1 {
					m.violate("C14", fmt.Sprintf("stored response but handler called %d times", ncalls), path)
				}
			}
			if flagInfo || flagLate || flagLimit || flagSecondLine {
				m.nontrivial(fmt.Sprintf("%v%v%v%v/%d", flagInfo, flagLate, flagLimit, flagSecondLine, status))
			}
			if seq <= 3 {
				m.sample(fmt.Sprintf("%s %s script=%v stored=%v", method, path, acts, stored))
			}
		}
		// every stored response once more, after all the other responses of this middleware went through the same
		// capture path: a hit still replays what its first hit replayed
		for _, rv := range revisit {
			again, err := doRequest(cl, "GET", srv.URL+rv.path, rv.acts)
			if err != nil || len(again.hdr["X-Cache"]) != 1 || again.hdr["X-Cache"][0] != "HIT" {
				continue // expired or displaced meanwhile
			}
			if !sameView(rv.view, again) {
				m.violate("C14", fmt.Sprintf("a later hit of %s (after %d other responses were captured and stored) differs from its first hit: status %d/%d, body %v / %v, headers %v / %v; script=%v", rv.path, len(revisit)-1, rv.view.status, again.status, rle(rv.view.body), rle(again.body), rv.view.hdr, again.hdr, rv.acts), rv.path)
			}
			m.count("revisited_hits")
		}
		srv.Close()
		mw.Close()
	}
	// raw Cache-Control values through the exported default policy (grammar + malformed stream)
	w.T(sidHTTP, (&toks{}).I(1, 1, 1, 200, 0, 0, int64(time.Hour+1), 0, 0, 0))
	pol := httpcache.DefaultCachePolicy(httpcache.Config{DefaultTTL: time.Hour + 1, CacheableStatus: []int{200}})
	req, _ := http.NewRequest("GET", "http://x/", nil)
	for i := 0; i < o.n*2; i++ {
		cc, forbid, _ := genCacheControl(r)
		if i%7 == 0 {
			b := make([]byte, r.Intn(12))
			for j := range b {
				b[j] = byte(pick(r, []int{32, 44, 61, 34, 9, 10, 13, 'n', 'o', '-', 's', 't', 'r', 'e', 'P', 0x7f, 0xc5, 0xbf, 0xe2, 0x84, 0xaa}))
			}
			cc = string(b)
			forbid = false
		}
		ok, ttl := pol(req, 200, http.Header{"Cache-Control": {cc}}, nil)
		op := ints(2)
		strToks(op, cc)
		ma := int64(0)
		if ok && ttl != time.Hour+1 {
			ma = int64(ttl)
		}
		hasDir := !ok
		w.O(op, (&toks{}).B(hasDir).I(ma))
		m.count("raw_cache_control")
		if forbid && ok {
			m.violate("C13", fmt.Sprintf("default policy stores a response whose Cache-Control %q carries no-store/no-cache/private", cc), cc)
		}
		if ok && ttl <= 0 && ttl != -1 {
			m.violate("C13", fmt.Sprintf("default policy returned a non-positive lifetime %v for %q", ttl, cc), cc)
		}
	}
	// a lone max-age=N: the stored response lives for N seconds (for N beyond what a Duration can hold: for centuries)
	for _, n := range []int64{1, 59, 3600, 86400, 31536000, 9223372035, 9223372036, 9223372037, 18446744073, 18446744074, 18446744075, 20000000000, 27670116110, 27670116111, 36893488148, 99999999999, 4611686018427387904} {
		ok, ttl := pol(req, 200, http.Header{"Cache-Control": {fmt.Sprintf("max-age=%d", n)}}, nil)
		want := time.Duration(math.MaxInt64)
		if n <= int64(math.MaxInt64/int64(time.Second)) {
			want = time.Duration(n) * time.Second
		}
		floor := want
		if floor > 200*365*24*time.Hour {
			floor = 200 * 365 * 24 * time.Hour
		}
		if !ok || ttl < floor || (want < 200*365*24*time.Hour && ttl != want) {
			m.violate("C13", fmt.Sprintf("default policy on Cache-Control \"max-age=%d\" returned (store=%v, lifetime %v); a stored response lives for the positive max-age (%v)", n, ok, ttl, want), fmt.Sprintf("max-age=%d", n))
		}
		m.count("lone_max_age")
	}
	w.Close()
	m.Traces, m.Ops = w.traces, w.ops
	httpHeadProbe(m)
	expiresUptimeProbe(m)
	m.write(o.out)
}

// ccForbids re-derives (independently of the library) whether a generated value carries a forbidding directive.
func ccForbids(v string) (string, bool) {
	for _, p := range strings.Split(v, ",") {
		name := strings.TrimSpace(p)
		if i := strings.IndexByte(name, '='); i >= 0 {
			name = strings.TrimSpace(name[:i])
		}
		switch strings.ToLower(name) {
		case "no-store", "no-cache", "private":
			return name, true
		}
	}
	return "", false
}

func streamTrie(o opts) {
	r := newRand(o.seed, "trie")
	m := newMeta("trie", o.seed)
	m.Rule = "addKey/removeKeyByIdentity/getMatchingKeys/clear sequences on the real pattern index over paths built from 4 segment names with runs of 1-5 duplicate, leading and trailing slashes (a separator drawn per joint), exact and wildcard patterns, stale identities; non-trivial = trace with an interior node holding keys above a pruned branch; distinct by (depth of pruning, wildcard seen)"
	w := newTraceWriter(o.out, "trie")
	segs := []string{"api", "users", "v1", "x"}
	mkPath := func() (string, []string) {
		d := r.Intn(4)
		var parts []string
		for i := 0; i < d; i++ {
			parts = append(parts, pick(r, segs))
		}
		seps := []string{"/", "/", "/", "//", "///", "////", "/////"}
		s := pick(r, []string{"/", "/", "/", "//", "///"})
		for i, p := range parts {
			if i > 0 {
				s += pick(r, seps)
			}
			s += p
		}
		if r.Intn(3) == 0 {
			s += pick(r, seps)
		}
		if r.Intn(6) == 0 {
			s = strings.TrimPrefix(s, "/")
		}
		return s, parts
	}
	for t := 0; t < o.n; t++ {
		idx := httpcache.NewVerifIndex()
		w.T(sidTrie, &toks{})
		ref := map[string]map[int]int{} // normalized path -> key -> id
		norm := func(parts []string) string { return strings.Join(parts, "/") }
		keyPath := map[int]string{}
		pruned, wild := false, false
		nops := 30 + r.Intn(120)
		for i := 0; i < nops; i++ {
			switch c := r.Intn(100); {
			case c < 40:
				p, parts := mkPath()
				k, id := r.Intn(12), r.Intn(4)
				if old, ok := keyPath[k]; ok && old != norm(parts) {
					// the middleware derives the path from the key, so one key has one path
					p, parts = "/"+old, strings.Split(old, "/")
					if old == "" {
						p, parts = "/", nil
					}
				}
				keyPath[k] = norm(parts)
				idx.Add(p, fmt.Sprint(k), id)
				if ref[norm(parts)] == nil {
					ref[norm(parts)] = map[int]int{}
				}
				ref[norm(parts)][k] = id
				op := ints(1, int64(k), int64(id))
				strToks(op, p)
				w.O(op, &toks{})
				m.count("add")
			case c < 65:
				k, id := r.Intn(12), r.Intn(4)
				np, ok := keyPath[k]
				if !ok {
					np = pick(r, []string{"", "api", "api/users"})
				}
				p := "/" + np
				nodes0 := idx.Nodes()
				idx.Remove(p, fmt.Sprint(k), id)
				if cur, in := ref[np][k]; in && cur == id {
					delete(ref[np], k)
					if len(ref[np]) == 0 {
						delete(ref, np)
					}
				}
				if idx.Nodes() < nodes0-1 {
					pruned = true
				}
				op := ints(2, int64(k), int64(id))
				strToks(op, p)
				w.O(op, &toks{})
				m.count("remove")
			case c < 92:
				p, parts := mkPath()
				star := r.Intn(2) == 0
				if r.Intn(10) == 0 {
					p, parts = "", nil
				}
				pat := p
				if star {
					pat = p + "*"
					wild = true
				}
				inner := false
				if len(p) > 1 && r.Intn(5) == 0 {
					// a '*' that is not the last character is a literal: the pattern names one (odd) path, never a subtree
					i := r.Intn(len(p))
					pat = p[:i] + "*" + p[i:]
					if star && r.Intn(2) == 0 {
						pat += "*"
					} else {
						star = false
					}
					inner = true
					parts = strings.FieldsFunc(strings.TrimSuffix(pat, "*"), func(c rune) bool { return c == '/' })
				}
				if inner {
					m.count("match_inner_star")
				}
				got := idx.Match(pat)
				var gi []int
				for _, s := range got {
					var x int
					fmt.Sscan(s, &x)
					gi = append(gi, x)
				}
				sort.Ints(gi)
				var want []int
				for np, ks := range ref {
					match := np == norm(parts)
					if star {
						match = np == norm(parts) || strings.HasPrefix(np, norm(parts)+"/") || norm(parts) == ""
					}
					if match {
						for k := range ks {
							want = append(want, k)
						}
					}
				}
				sort.Ints(want)
				if fmt.Sprint(gi) != fmt.Sprint(want) {
					m.violate("C15", fmt.Sprintf("pattern %q matched keys %v, reference map says %v", pat, gi, want), fmt.Sprintf("trie trace %d", t))
				}
				op := ints(3)
				strToks(op, pat)
				res := &toks{}
				for _, x := range gi {
					res.I(int64(x))
				}
				w.O(op, res)
				m.count("match")
			case c < 96:
				nodes := idx.Nodes()
				total := 1
				seen := map[string]bool{}
				for np := range ref {
					parts := strings.Split(np, "/")
					for j := 1; j <= len(parts); j++ {
						if np != "" {
							seen[strings.Join(parts[:j], "/")] = true
						}
					}
				}
				total += len(seen)
				if nodes != total {
					m.violate("C15", fmt.Sprintf("index holds %d nodes, the live paths need %d (empty branch not pruned or live branch lost)", nodes, total), fmt.Sprintf("trie trace %d", t))
				}
				w.O(ints(5), ints(int64(nodes)))
				m.count("nodes")
			default:
				idx.Clear()
				ref = map[string]map[int]int{}
				keyPath = map[int]string{}
				w.O(ints(4), &toks{})
				m.count("clear")
			}
		}
		if pruned && wild {
			m.nontrivial(fmt.Sprintf("t%d", t%40))
		}
		if t < 2 {
			m.sample(fmt.Sprintf("trie trace %d: %d ops", t, nops))
		}
	}
	w.Close()
	m.Traces, m.Ops = w.traces, w.ops
	m.write(o.out)
}

// Stream "index" (C15, interleavings): the path index against the backing cache under stores,
// invalidations, evictions and late removal notifications, through the split-store hooks.
func streamIndex(o opts) {
	r := newRand(o.seed, "index")
	m := newMeta("index", o.seed)
	m.Rule = "T-trace against IndexLts (rounds with a cache large enough never to displace: every split-store step, Delete, Invalidate, Clear and flush is replayed by the extracted model and the index / cache key sets are compared at every flush) and monitors on all rounds: deterministic interleavings of store (index step, cache step), Invalidate, InvalidateByFunc, Clear, direct removals and notification delivery on the real middleware (distinct keys concurrently; same-key overlap only in the known-finding probe), plus a late-notification probe through a blocking PathExtractor and free-running requests with evictions; at every quiescent point the keys reachable through the index must equal the cached keys that have a path; non-trivial = round with a removal whose notification is delivered after the key was re-cached; distinct by scenario parameters"
	w := newTraceWriter(o.out, "index")
	bases := map[*httpcache.Middleware][2]int64{}
	newMW := func(maxSize int64, extractor func(string) string) *httpcache.Middleware {
		cfg := httpcache.Config{MaxSize: maxSize, ShardCount: 1, EvictionPolicy: kioshun.LRU, DefaultTTL: time.Hour, DisableCleanup: true, PathExtractor: extractor}
		base := httpcache.VerifSettleBase()
		mw, err := httpcache.New(cfg)
		must(err)
		mw.SetKeyGenerator(httpcache.KeyWithoutQuery())
		bases[mw] = base
		return mw
	}
	// settle: every removal staged by this middleware's cache has been delivered to the index reconciliation
	// (middlewares are used one at a time, so the process-wide counters are this middleware's)
	settle := func(mw *httpcache.Middleware) {
		if !mw.VerifSettle(bases[mw], 3*time.Second) {
			m.count("index_settle_timeouts")
		}
	}
	quiescentCheck := func(mw *httpcache.Middleware, ctx string) {
		settle(mw)
		cached := map[string]bool{}
		for _, k := range mw.VerifCachedKeys() {
			if httpcache.PathExtractorFromKey(k) != "" {
				cached[k] = true
			}
		}
		indexed := map[string]bool{}
		for _, k := range mw.VerifIndexKeys() {
			indexed[k] = true
		}
		for k := range cached {
			if !indexed[k] {
				m.violate("C15", fmt.Sprintf("%s: key %q is cached but not reachable through the path index (Invalidate would miss it)", ctx, k), ctx)
				return
			}
		}
		for k := range indexed {
			if !cached[k] {
				m.violate("C15", fmt.Sprintf("%s: key %q is in the path index but not cached (stale index entry)", ctx, k), ctx)
				return
			}
		}
	}
	for round := 0; round < o.n; round++ {
		// (a) sequential + interleaved stores on distinct keys, removals, invalidations
		size := pick(r, []int64{3, 8, 1000, 1000})
		mw := newMW(size, httpcache.PathExtractorFromKey)
		ctx := fmt.Sprintf("index round %d", round)
		paths := []string{"/a", "/a/b", "/a/b/c", "/x", "/x/y", "/", "/a///b", "//a", "/a/b//", "/x////y", "/a/b///c/", "/a:b", "/a/b:c", "/x/y:z/w", "/a/b:c:d"}
		// T-trace against IndexLts (sid 151) when the cache is large enough never to displace anything
		traced := size == 1000
		keyNum := map[string]int64{}
		for i, p := range paths {
			keyNum["GET:"+p] = int64(i + 1)
		}
		normOf := func(p string) string {
			return "/" + strings.Join(strings.FieldsFunc(p, func(c rune) bool { return c == '/' }), "/")
		}
		emit := func(op *toks, res *toks) {
			if traced {
				w.O(op, res)
			}
		}
		observe := func() {
			if !traced {
				return
			}
			settle(mw)
			emit(ints(3), &toks{})
			var ik, ck []int64
			for _, k := range mw.VerifIndexKeys() {
				ik = append(ik, keyNum[k])
			}
			for _, k := range mw.VerifCachedKeys() {
				ck = append(ck, keyNum[k])
			}
			sort.Slice(ik, func(a, b int) bool { return ik[a] < ik[b] })
			sort.Slice(ck, func(a, b int) bool { return ck[a] < ck[b] })
			res := &toks{}
			res.I(ik...).I(-1).I(ck...)
			emit(ints(7), res)
		}
		if traced {
			w.T(151, &toks{})
		}
		pending := map[string]*httpcache.Response{}
		for i := 0; i < 60; i++ {
			key := "GET:" + pick(r, paths)
			switch r.Intn(8) {
			case 0, 1:
				if len(pending) == 0 && r.Intn(3) == 0 {
					// the real store (both halves in one call): the model takes its two steps back to back
					resp := &httpcache.Response{StatusCode: 200 + i}
					if err := mw.VerifStore(key, resp, time.Hour); err == nil {
						emit(ints(1, keyNum[key], int64(200+i)), &toks{})
						emit(ints(2, keyNum[key], int64(200+i)), &toks{})
					}
					break
				}
				if _, busy := pending[key]; !busy {
					resp := &httpcache.Response{StatusCode: 200 + i}
					if mw.VerifStoreIndex(key, resp) { // false: another in-flight store holds this key's stripe
						pending[key] = resp
						emit(ints(1, keyNum[key], int64(200+i)), &toks{})
					}
				}
			case 2, 3:
				if resp, busy := pending[key]; busy {
					mw.VerifStoreSet(key, resp, time.Hour)
					delete(pending, key)
					emit(ints(2, keyNum[key], int64(resp.StatusCode)), &toks{})
				}
			case 4:
				if _, busy := pending[key]; !busy {
					ok := mw.VerifDeleteKey(key)
					emit(ints(4, keyNum[key]), (&toks{}).B(ok))
				}
			case 5:
				pat := pick(r, []string{"/a", "/a/*", "/x/*", "/*", "/a/b/", "//a//b", "/a///b", "/x///*", "/a/b////c", "/a:b", "/a/b:c", "/x/y:z/*", "/a/b:c:d"})
				// Invalidate is specified for "no request in flight": complete every pending store first
				var pk []string
				for k := range pending {
					pk = append(pk, k)
				}
				sort.Strings(pk)
				for _, k := range pk {
					resp := pending[k]
					mw.VerifStoreSet(k, resp, time.Hour)
					delete(pending, k)
					emit(ints(2, keyNum[k], int64(resp.StatusCode)), &toks{})
				}
				busy := false
				if !busy {
					n := mw.Invalidate(pat)
					if traced {
						// the universe keys whose normalized path matches the pattern (independent of the index)
						op := ints(5)
						base := normOf(strings.TrimSuffix(pat, "*"))
						for _, p := range paths {
							np := normOf(p)
							hit := np == base
							if strings.HasSuffix(pat, "*") {
								hit = np == base || base == "/" || strings.HasPrefix(np, base+"/")
							}
							if hit {
								op.I(keyNum["GET:"+p])
							}
						}
						emit(op, ints(int64(n)))
					}
					mw.VerifFlushRemovals()
					for _, k := range mw.VerifCachedKeys() {
						p := strings.TrimPrefix(k, "GET:") // independent of the extractor under test
						base := strings.TrimSuffix(pat, "*")
						nb := "/" + strings.Join(strings.FieldsFunc(base, func(c rune) bool { return c == '/' }), "/")
						np := "/" + strings.Join(strings.FieldsFunc(p, func(c rune) bool { return c == '/' }), "/")
						match := np == nb
						if strings.HasSuffix(pat, "*") {
							match = np == nb || strings.HasPrefix(np, strings.TrimSuffix(nb, "/")+"/") || nb == "/"
						}
						if match {
							m.violate("C15", fmt.Sprintf("%s: after Invalidate(%q) returned, %q is still cached", ctx, pat, k), ctx)
						}
					}
				}
			case 6:
				mw.VerifFlushRemovals()
				observe()
			case 7:
				if len(pending) == 0 && r.Intn(4) == 0 {
					mw.Clear()
					emit(ints(6), &toks{})
				}
			}
		}
		for key, resp := range pending {
			mw.VerifStoreSet(key, resp, time.Hour)
			emit(ints(2, keyNum[key], int64(resp.StatusCode)), &toks{})
		}
		observe()
		quiescentCheck(mw, ctx)
		mw.Close()
		m.count("interleaving_rounds")

		// (b) late notification: remove, keep the notifier parked, re-cache through a real request, release
		var gate sync.Mutex
		block := false
		inReq := false
		release := make(chan struct{})
		ext := func(key string) string {
			gate.Lock()
			b := block && !inReq
			gate.Unlock()
			if b {
				<-release
			}
			return httpcache.PathExtractorFromKey(key)
		}
		mw2 := newMW(1000, ext)
		calls := 0
		h := mw2.Wrap(http.HandlerFunc(func(w http.ResponseWriter, rq *http.Request) { calls++; fmt.Fprintf(w, "v%d", calls) }))
		do := func() string {
			gate.Lock()
			inReq = true
			gate.Unlock()
			rec := httptest.NewRecorder()
			h.ServeHTTP(rec, httptest.NewRequest("GET", "/page", nil))
			gate.Lock()
			inReq = false
			gate.Unlock()
			return rec.Header().Get("X-Cache")
		}
		do()
		gate.Lock()
		block = true
		gate.Unlock()
		mw2.VerifDeleteKey("GET:/page") // removal staged; the notifier parks inside the extractor
		time.Sleep(2 * time.Millisecond)
		do() // miss: re-cached with a new identity while the old notification is still in flight
		gate.Lock()
		block = false
		gate.Unlock()
		close(release)
		time.Sleep(2 * time.Millisecond)
		quiescentCheck(mw2, ctx+" late notification")
		if n := mw2.Invalidate("/page"); n != 1 {
			m.violate("C15", fmt.Sprintf("%s: after a late removal notification Invalidate(/page) removed %d entries, the re-cached response stays served", ctx, n), ctx)
		}
		mw2.Close()
		m.nontrivial(fmt.Sprintf("late/%d", round%20))
	}
	// (c) free-running late notifications: per key GET (cached), Invalidate (removal queued), GET again (re-cached) while
	// the notifier delivers the late removal; a rendezvous inside the PathExtractor lines the two up.
	{
		var racing atomic.Bool
		var raceKey atomic.Value
		var arrived, lonely atomic.Int32
		raceKey.Store("")
		ext := func(key string) string {
			if racing.Load() && raceKey.Load().(string) == key {
				n := arrived.Add(1)
				target := (n + 1) / 2 * 2
				if lonely.Load() < 20 { // after 20 rendezvous without a partner the probe stops waiting (it only lines calls up)
					t0 := time.Now()
					for arrived.Load() < target && time.Since(t0) < 200*time.Millisecond {
						runtime.Gosched()
					}
					if arrived.Load() < target {
						lonely.Add(1)
					}
				}
			}
			return httpcache.PathExtractorFromKey(key)
		}
		mw := newMW(0, ext)
		h := mw.Wrap(http.HandlerFunc(func(w http.ResponseWriter, rq *http.Request) { w.Write([]byte("ok")) }))
		get := func(path string) string {
			rec := httptest.NewRecorder()
			h.ServeHTTP(rec, httptest.NewRequest("GET", path, nil))
			return rec.Header().Get("X-Cache")
		}
		rounds := 150 * o.n
		if rounds > 60000 {
			rounds = 60000
		}
		watch("index late-notification race")
		for i := 0; i < rounds; i++ {
			path := fmt.Sprintf("/race/%d", i)
			get(path)
			raceKey.Store("GET:" + path)
			racing.Store(true)
			mw.Invalidate(path)
			get(path)
			racing.Store(false)
		}
		unwatch()
		quiescentCheck(mw, fmt.Sprintf("late-notification race, %d keys", rounds))
		mw.Invalidate("/race/*")
		stale := 0
		for i := 0; i < rounds; i++ {
			if get(fmt.Sprintf("/race/%d", i)) == "HIT" {
				stale++
			}
		}
		if stale > 0 {
			m.violate("C15", fmt.Sprintf("late-notification race: %d of %d responses under /race/ were still served after Invalidate(/race/*) returned", stale, rounds), "late-notification race")
		}
		mw.Close()
		m.count("late_race_keys")
	}
	// (d) a request that re-caches the key while Invalidate is still running: if Invalidate consults the PathExtractor on
	// its own goroutine (the code as it stands does not: then the request simply follows it), the extractor issues the
	// request right there. Either way, at quiescence the index must reach exactly what is cached, and a second
	// Invalidate must remove the re-cached response.
	for rep := 0; rep < 20; rep++ {
		var inInv atomic.Bool
		var invG atomic.Int64
		var fired atomic.Bool
		var hnd http.Handler
		path := fmt.Sprintf("/inv/%d", rep)
		gid := func() int64 {
			var b [64]byte
			f := strings.Fields(string(b[:runtime.Stack(b[:], false)]))
			id, _ := strconv.ParseInt(f[1], 10, 64)
			return id
		}
		ext := func(key string) string {
			if inInv.Load() && gid() == invG.Load() && key == "GET:"+path && fired.CompareAndSwap(false, true) {
				hnd.ServeHTTP(httptest.NewRecorder(), httptest.NewRequest("GET", path, nil))
			}
			return httpcache.PathExtractorFromKey(key)
		}
		mw := newMW(0, ext)
		hnd = mw.Wrap(http.HandlerFunc(func(w http.ResponseWriter, rq *http.Request) { w.Write([]byte("ok")) }))
		get := func() string {
			rec := httptest.NewRecorder()
			hnd.ServeHTTP(rec, httptest.NewRequest("GET", path, nil))
			return rec.Header().Get("X-Cache")
		}
		ctx := fmt.Sprintf("re-cache during Invalidate, round %d", rep)
		watch(ctx)
		get()
		invG.Store(gid())
		inInv.Store(true)
		mw.Invalidate(path)
		inInv.Store(false)
		if !fired.Load() {
			get()
		}
		settle(mw)
		quiescentCheck(mw, ctx)
		if get() == "HIT" {
			if n := mw.Invalidate(path); n != 1 {
				m.violate("C15", fmt.Sprintf("%s: GET %s, Invalidate(%s) with a request re-caching the key %s, then a HIT: a second Invalidate(%s) removed %d entries instead of 1 (the cached response is no longer reachable through the index)", ctx, path, path, map[bool]string{true: "while it ran", false: "right after it"}[fired.Load()], path, n), ctx)
			} else if get() == "HIT" {
				m.violate("C15", fmt.Sprintf("%s: still a HIT after the second Invalidate(%s) returned 1", ctx, path), ctx)
			}
		}
		unwatch()
		mw.Close()
	}
	// (e) Clear racing stores: 8 goroutines keep requesting their own paths (every miss stores) while Clear runs in a
	// loop; afterwards, at quiescence, the index must reach exactly what is cached and Invalidate("/*") must leave no HIT.
	for rep := 0; rep < 4; rep++ {
		mw := newMW(0, httpcache.PathExtractorFromKey)
		hnd := mw.Wrap(http.HandlerFunc(func(w http.ResponseWriter, rq *http.Request) { w.Write([]byte("ok")) }))
		ctx := fmt.Sprintf("%s racing stores, round %d", map[bool]string{true: "Clear", false: "InvalidateByFunc(all)"}[rep%2 == 0], rep)
		watch(ctx)
		var wg sync.WaitGroup
		var stopC atomic.Bool
		for g := 0; g < 8; g++ {
			wg.Add(1)
			go func(g int) {
				defer wg.Done()
				for i := 0; !stopC.Load(); i++ {
					hnd.ServeHTTP(httptest.NewRecorder(), httptest.NewRequest("GET", fmt.Sprintf("/clr/%d/%d", g, i%6), nil))
				}
			}(g)
		}
		for i, t0 := 0, time.Now(); i < 400 && time.Since(t0) < 2*time.Second; i++ {
			if rep%2 == 0 {
				mw.Clear()
			} else {
				mw.InvalidateByFunc(func(string) bool { return true }) // matches every cached key
			}
			runtime.Gosched()
		}
		stopC.Store(true)
		wg.Wait()
		settle(mw)
		quiescentCheck(mw, ctx)
		mw.Invalidate("/*")
		stale := 0
		for g := 0; g < 8; g++ {
			for i := 0; i < 6; i++ {
				rec := httptest.NewRecorder()
				hnd.ServeHTTP(rec, httptest.NewRequest("GET", fmt.Sprintf("/clr/%d/%d", g, i), nil))
				if rec.Header().Get("X-Cache") == "HIT" {
					stale++
				}
			}
		}
		if stale > 0 {
			m.violate("C15", fmt.Sprintf("%s: %d of 48 responses were still served from the cache after Invalidate(/*) returned with no request in flight (stores had raced Clear)", ctx, stale), ctx)
		}
		unwatch()
		mw.Close()
		m.count("clear_race_rounds")
	}
	// (f) keys without a path (the PathExtractor returns "" for them) are cached but never indexed: no pattern reaches
	// them, not even "/" or "/*", and they never show up among the index keys
	{
		ext := func(key string) string {
			if strings.HasPrefix(key, "GET:/np") {
				return ""
			}
			return httpcache.PathExtractorFromKey(key)
		}
		mw := newMW(0, ext)
		hnd := mw.Wrap(http.HandlerFunc(func(w http.ResponseWriter, rq *http.Request) { w.Write([]byte("ok")) }))
		get := func(path string) string {
			rec := httptest.NewRecorder()
			hnd.ServeHTTP(rec, httptest.NewRequest("GET", path, nil))
			return rec.Header().Get("X-Cache")
		}
		ctx := "keys without a path"
		watch(ctx)
		for _, p := range []string{"/np/report", "/np", "/", "/a", "/a/b"} {
			get(p)
		}
		for _, k := range mw.VerifIndexKeys() {
			if strings.HasPrefix(k, "GET:/np") {
				m.violate("C15", fmt.Sprintf("%s: key %q has no path (the PathExtractor returned \"\") yet is reachable through the path index", ctx, k), ctx)
			}
		}
		for _, pat := range []string{"/", "", "/*", "*"} {
			n := mw.Invalidate(pat)
			settle(mw)
			if get("/np/report") != "HIT" || get("/np") != "HIT" {
				m.violate("C15", fmt.Sprintf("%s: Invalidate(%q) (removed %d) took away a cached response that has no path; entries on other paths are untouched", ctx, pat, n), ctx)
				break
			}
			if pat == "/" && n != 1 {
				m.violate("C15", fmt.Sprintf("%s: Invalidate(\"/\") removed %d entries, exactly the response of path / is on that path", ctx, n), ctx)
			}
		}
		unwatch()
		mw.Close()
		m.count("pathless_probe")
	}
	// regression for finding F5 (fixed): the schedule index r1, index r2, Set r2, r2 evicted and notified, Set r1, driven
	// through the real store with the cooperative scheduler (a store parks at the yield point inside its cache write).
	// With stores of one key serialised the second store cannot pass the first one's index step; either way the identity
	// the index records must be the identity the cache holds at the end.
	for rep := 0; rep < 3; rep++ {
		mw := newMW(1000, httpcache.PathExtractorFromKey)
		key := "GET:/p"
		r1, r2 := &httpcache.Response{StatusCode: 201}, &httpcache.Response{StatusCode: 202}
		watch("index overlapping stores of one key")
		kioshun.VerifSchedReset(true, 200*time.Millisecond)
		kioshun.VerifSchedSpawn(1, func() { mw.VerifStore(key, r1, time.Hour) })
		p1 := stepUntil(1, 331) // inside cache.Set, before the shard's drain token: the index step is done
		kioshun.VerifSchedSpawn(2, func() { mw.VerifStore(key, r2, time.Hour) })
		p2 := stepUntil(2, 331)
		if p1 == 331 && p2 == 331 {
			stepUntil(2, -100) // Set r2
			mw.VerifDeleteKey(key)
			settle(mw) // r2 evicted, its notification delivered
			m.count("overlap_second_store_overtook")
		}
		stepUntil(1, -100) // Set r1
		for i := 0; i < 20; i++ {
			if q := stepUntil(2, -100); q == kioshun.VerifStepDone || q == kioshun.VerifStepUnknown {
				break
			}
		}
		kioshun.VerifSchedReset(false, 0)
		settle(mw)
		cachedResp, _, cached := mw.VerifPeek(key)
		idxResp, indexed := mw.VerifIndexIdentity(key)
		if cached != indexed || (cached && cachedResp != idxResp) {
			m.violate("C15", fmt.Sprintf("overlapping stores of one key (index r1, index r2, Set r2, r2 evicted and notified, Set r1): cached=%v indexed=%v (index identity %p, cache identity %p): Invalidate cannot reach a response that keeps being served", cached, indexed, idxResp, cachedResp), "overlapping stores")
		}
		quiescentCheck(mw, "overlapping stores of one key")
		unwatch()
		mw.Close()
		m.count("overlap_store_probes")
	}
	w.Close()
	m.Traces, m.Ops = o.n, o.n*62+w.ops
	m.sample("two overlapping stores of one key, first parked inside its cache write: index identity == cache identity (regression for F5)")
	m.write(o.out)
}
