//go:build verif

// Command harness runs the implementation side of the correspondence checks.
package main

import (
	"fmt"
	"os"
	"sort"

	"github.com/unkn0wn-root/kioshun"
)

func usage() {
	fmt.Fprintln(os.Stderr, "usage: harness <consts|stream> ...")
	os.Exit(2)
}

func main() {
	if len(os.Args) < 2 {
		usage()
	}
	switch os.Args[1] {
	case "consts":
		genConsts()
	case "kindtable":
		genKindTable(os.Args[2])
	default:
		runStream(os.Args[1], os.Args[2:])
	}
}

// genConsts prints coq/Gen/Consts.v from the compiled constants of /repo.
func genConsts() {
	m := kioshun.VerifConsts()
	names := make([]string, 0, len(m))
	for k := range m {
		names = append(names, k)
	}
	sort.Strings(names)
	fmt.Println("(* GENERATED from /repo by `harness consts` on every check run. Do not edit. *)")
	fmt.Println("From Coq Require Import ZArith.")
	fmt.Println("Open Scope Z_scope.")
	for _, k := range names {
		v := m[k]
		if v < 0 {
			fmt.Printf("Definition %s : Z := (%d).\n", k, v)
		} else {
			fmt.Printf("Definition %s : Z := %d.\n", k, v)
		}
	}
}
