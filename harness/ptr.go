//go:build verif

package main

import (
	"fmt"

	kioshun "github.com/unkn0wn-root/kioshun"
)

// Stream "pl" (sid 81): the real intrusive structures behind the eviction policies (shard LRU list, the two SIEVE
// queues with the hand, the LFU frequency ring) against the pointer-level model PtrModel.v. After every operation the
// complete heap (prev/next/queue/visited/reuse of every sentinel and item, sizes, hand; for LFU the ring walked in both
// directions and both maps) is compared with the extracted model. Independent Go reference lists decide the
// property-level statements (the list is the reference sequence in both directions, the victim is the policy's) and
// give the failing operation sequence when they fail.
const sidPl = 81

type plRef struct {
	lru  []int       // MRU first
	prob []int       // newest first
	main []int       // newest first
	freq map[int]int // LFU: item -> frequency
}

func remInt(l []int, x int) []int {
	out := make([]int, 0, len(l))
	for _, y := range l {
		if y != x {
			out = append(out, y)
		}
	}
	return out
}
func hasInt(l []int, x int) bool {
	for _, y := range l {
		if y == x {
			return true
		}
	}
	return false
}

// walk follows next from `from` until `to` (fwd) or prev from `to` until `from` (bwd) in a field dump.
func plWalk(d []int64, n int, from, to int64, fwd bool) ([]int, bool) {
	idx := func(p int64) int { // position of node p in the dump
		if p < 0 {
			return int(-p-1) * 5
		}
		return (6 + int(p) - 1) * 5
	}
	var out []int
	cur := from
	if !fwd {
		cur = to
	}
	for steps := 0; steps <= n+2; steps++ {
		var nx int64
		if cur == 0 || cur == -99 || (cur > 0 && int(cur) > n) {
			return out, false
		}
		if fwd {
			nx = d[idx(cur)+1]
		} else {
			nx = d[idx(cur)]
		}
		if (fwd && nx == to) || (!fwd && nx == from) {
			return out, true
		}
		if nx <= 0 {
			return out, false
		}
		out = append(out, int(nx))
		cur = nx
	}
	return out, false
}

func eqInts(a, b []int) bool {
	if len(a) != len(b) {
		return false
	}
	for i := range a {
		if a[i] != b[i] {
			return false
		}
	}
	return true
}
func revInts(a []int) []int {
	out := make([]int, len(a))
	for i, x := range a {
		out[len(a)-1-i] = x
	}
	return out
}

func streamPl(o opts) {
	r := newRand(o.seed, "pl")
	m := newMeta("pl", o.seed)
	m.Rule = "operation sequences on the real shard LRU list, the real SIEVE queues + hand and the real LFU frequency ring (protocol-respecting traces with Go reference lists, plus off-protocol traces for the LRU/SIEVE pointer surgery); after every operation every pointer field is compared with the extracted pointer-level model; non-trivial = trace with at least 3 linked items and an unlink; distinct by structure, size and op mix"
	w := newTraceWriter(o.out, "pl")
	for t := 0; t < o.n; t++ {
		n := 3 + r.Intn(10)
		owner := int64(r.Intn(4))
		mcap := int64(r.Intn(4)) // 0 disables promotion
		if t%4 != 0 && mcap == 0 {
			mcap = 3
		}
		v := kioshun.NewVerifPtr(uint8(owner), mcap, n)
		w.T(sidPl, ints(owner, mcap, int64(n)))
		mode := t % 3 // 0 LRU, 1 SIEVE, 2 LFU
		rogue := mode != 2 && t%10 == 9
		ref := plRef{freq: map[int]int{}}
		var log []string
		unlink, maxLinked := false, 0
		emit := func(res int64, lfu bool, op ...int64) []int64 {
			var d []int64
			if lfu {
				d = v.DumpLFU()
			} else {
				d = v.Dump()
			}
			obs := ints(res)
			obs.I(d...)
			w.O(ints(op...), obs)
			log = append(log, fmt.Sprint(op))
			if len(log) > 120 {
				log = append([]string{"..."}, log[len(log)-80:]...)
			}
			return d
		}
		bad := func(prop, what string) {
			m.violate(prop, fmt.Sprintf("intrusive structures (n=%d owner=%d mainCap=%d), after ops %v: %s", n, owner, mcap, log, what), "pl")
		}
		nops := 20 + r.Intn(60)
		// every twelfth trace: an LFU ring whose entries are read several hundred times each (frequency counters far
		// beyond any small bound), before the random operations
		hotOps := 0
		if mode == 2 && t%12 == 2 {
			hotOps = 600 + r.Intn(500)
			nops += hotOps
		}
		for i := 0; i < nops; i++ {
			x := 1 + r.Intn(n)
			switch mode {
			case 0: // ---- shard LRU list
				k := r.Intn(10)
				if rogue {
					code := int64(1 + r.Intn(4))
					if dd := v.Dump(); (code == 1 || code == 3) && dd[1] == 0 || code == 3 && dd[1] != int64(x) && dd[(6+x-1)*5+1] == 0 {
						continue // head.next is nil (or would become nil): addToLRUHead would dereference it
					}
					if code == 4 {
						emit(v.Op(4, 0, 0), false, 4)
					} else {
						v.Op(int(code), x, 0)
						emit(0, false, code, int64(x))
					}
					continue
				}
				var d []int64
				switch {
				case k < 4:
					// add a fresh item, or move/remove when all are linked
					fresh := 0
					for c := 1; c <= n; c++ {
						if !hasInt(ref.lru, c) {
							fresh = c
							if r.Intn(2) == 0 {
								break
							}
						}
					}
					if fresh == 0 {
						continue
					}
					v.Op(1, fresh, 0)
					ref.lru = append([]int{fresh}, ref.lru...)
					d = emit(0, false, 1, int64(fresh))
				case k < 6:
					if len(ref.lru) == 0 {
						continue
					}
					x = ref.lru[r.Intn(len(ref.lru))]
					v.Op(2, x, 0)
					ref.lru = remInt(ref.lru, x)
					unlink = true
					d = emit(0, false, 2, int64(x))
				case k < 9:
					if len(ref.lru) == 0 {
						continue
					}
					x = ref.lru[r.Intn(len(ref.lru))]
					v.Op(3, x, 0)
					ref.lru = append([]int{x}, remInt(ref.lru, x)...)
					d = emit(0, false, 3, int64(x))
				default:
					got := v.Op(4, 0, 0)
					d = emit(got, false, 4)
					want := int64(0)
					if len(ref.lru) > 0 {
						want = int64(ref.lru[len(ref.lru)-1])
					}
					if got != want {
						bad("C09", fmt.Sprintf("the list's victim (tail.prev) is %d, the least recently used entry is %d", got, want))
					}
				}
				if len(ref.lru) > maxLinked {
					maxLinked = len(ref.lru)
				}
				f, ok1 := plWalk(d, n, -1, -2, true)
				b, ok2 := plWalk(d, n, -1, -2, false)
				if !ok1 || !ok2 || !eqInts(f, ref.lru) || !eqInts(b, revInts(ref.lru)) {
					bad("C11", fmt.Sprintf("list corrupted: forward walk %v (closed=%v), backward walk %v (closed=%v), expected %v", f, ok1, b, ok2, ref.lru))
					bad("C09", fmt.Sprintf("recency list does not hold the entries in recency order: forward %v backward %v expected %v", f, b, ref.lru))
					bad("C10", fmt.Sprintf("policy list disagrees with the resident set: forward %v backward %v expected %v", f, b, ref.lru))
					ref.lru = f
				}
			case 1: // ---- SIEVE queues
				if rogue {
					code := pick(r, []int64{10, 11, 12, 13, 14, 15, 16, 18, 19})
					if dd := v.Dump(); dd[2*5+1] == 0 || dd[4*5+1] == 0 {
						continue // a queue's head.next is nil: pushFront would dereference it
					}
					switch code {
					case 14:
						y := 1 + r.Intn(n)
						if y == x {
							continue
						}
						v.Op(14, x, y)
						emit(0, false, 14, int64(x), int64(y))
					case 15:
						scan, force := int64(r.Intn(4)), int64(r.Intn(2))
						emit(v.Op(15, int(scan), int(force)), false, 15, scan, force)
					case 18:
						emit(v.Op(18, 0, 0), false, 18)
					default:
						emit(v.Op(int(code), x, 0), false, code, int64(x))
					}
					continue
				}
				where := func(c int) int {
					if hasInt(ref.prob, c) {
						return 1
					}
					if hasInt(ref.main, c) {
						return 2
					}
					return 0
				}
				freshItem := func() int {
					for tries := 0; tries < 2*n; tries++ {
						c := 1 + r.Intn(n)
						if where(c) == 0 {
							return c
						}
					}
					return 0
				}
				var d []int64
				k := r.Intn(20)
				switch {
				case k < 5:
					c := freshItem()
					if c == 0 {
						continue
					}
					v.Op(10, c, 0)
					ref.prob = append([]int{c}, ref.prob...)
					d = emit(0, false, 10, int64(c))
				case k < 7:
					c := freshItem()
					if c == 0 {
						continue
					}
					v.Op(11, c, 0)
					ref.main = append([]int{c}, ref.main...)
					d = emit(0, false, 11, int64(c))
				case k < 10:
					got := v.Op(12, x, 0)
					want := int64(0)
					if where(x) != 0 {
						want = 1
						unlink = true
					}
					ref.prob, ref.main = remInt(ref.prob, x), remInt(ref.main, x)
					d = emit(got, false, 12, int64(x))
					if got != want {
						bad("C11", fmt.Sprintf("sieve.remove(%d) returned %d, membership says %d", x, got, want))
					}
				case k < 12:
					v.Op(13, x, 0)
					if where(x) == 1 && mcap > 0 {
						ref.prob = remInt(ref.prob, x)
						ref.main = append([]int{x}, ref.main...)
					}
					d = emit(0, false, 13, int64(x))
				case k < 14:
					c := freshItem()
					if c == 0 || where(x) == 0 {
						continue
					}
					v.Op(14, x, c)
					for i2, y := range ref.prob {
						if y == x {
							ref.prob[i2] = c
						}
					}
					for i2, y := range ref.main {
						if y == x {
							ref.main[i2] = c
						}
					}
					d = emit(0, false, 14, int64(x), int64(c))
				case k < 17:
					scan, force := int64(r.Intn(4)), int64(r.Intn(2))
					got := v.Op(15, int(scan), int(force))
					d = emit(got, false, 15, scan, force)
					if got != 0 && !hasInt(ref.main, int(got)) {
						bad("C09", fmt.Sprintf("findMainVictim returned %d, which is not in the main queue %v", got, ref.main))
					}
					if got == 0 && force == 1 && len(ref.main) > 0 {
						bad("C03", fmt.Sprintf("forced findMainVictim found no victim in a non-empty main queue %v", ref.main))
					}
				case k < 19:
					v.Op(16, x, 0)
					d = emit(0, false, 16, int64(x))
				default:
					got := v.Op(18, 0, 0)
					d = emit(got, false, 18)
					want := int64(0)
					if len(ref.prob) > 0 {
						want = int64(ref.prob[len(ref.prob)-1])
					}
					if got != want {
						bad("C09", fmt.Sprintf("probation tail is %d, the oldest probation entry is %d", got, want))
					}
				}
				if len(ref.prob)+len(ref.main) > maxLinked {
					maxLinked = len(ref.prob) + len(ref.main)
				}
				pf, ok1 := plWalk(d, n, -3, -4, true)
				pb, ok2 := plWalk(d, n, -3, -4, false)
				mf, ok3 := plWalk(d, n, -5, -6, true)
				mb, ok4 := plWalk(d, n, -5, -6, false)
				psz, msz, hand := d[len(d)-4], d[len(d)-3], d[len(d)-2]
				if !ok1 || !ok2 || !ok3 || !ok4 || !eqInts(pf, ref.prob) || !eqInts(pb, revInts(ref.prob)) || !eqInts(mf, ref.main) || !eqInts(mb, revInts(ref.main)) {
					bad("C11", fmt.Sprintf("SIEVE queues corrupted: probation fwd %v bwd %v (closed %v %v) expected %v; main fwd %v bwd %v (closed %v %v) expected %v", pf, pb, ok1, ok2, ref.prob, mf, mb, ok3, ok4, ref.main))
					bad("C10", fmt.Sprintf("SIEVE queues disagree with the resident set: probation %v expected %v; main %v expected %v", pf, ref.prob, mf, ref.main))
					ref.prob, ref.main = pf, mf
				}
				if psz != int64(len(ref.prob)) || msz != int64(len(ref.main)) {
					bad("C10", fmt.Sprintf("queue size counters (%d,%d) disagree with the queues' contents (%d,%d)", psz, msz, len(ref.prob), len(ref.main)))
				}
				if hand != 0 && !hasInt(ref.main, int(hand)) {
					bad("C11", fmt.Sprintf("the SIEVE hand points at %d, which is not in the main queue %v", hand, ref.main))
				}
			case 2: // ---- LFU ring
				var d []int64
				k := r.Intn(10)
				if i < hotOps {
					hn := 3
					if n < hn {
						hn = n
					}
					if x = 1 + i%hn; i < hn {
						k = 0
					} else if k = 5; i%7 == 3 {
						x = 1 // uneven counts
					}
				}
				switch {
				case k < 3:
					if _, ok := ref.freq[x]; ok {
						continue
					}
					v.Op(20, x, 0)
					ref.freq[x] = 1
					d = emit(0, true, 20, int64(x))
				case k < 7:
					v.Op(21, x, 0)
					ref.freq[x]++
					d = emit(0, true, 21, int64(x))
				case k < 8:
					v.Op(22, x, 0)
					if _, ok := ref.freq[x]; ok {
						unlink = true
					}
					delete(ref.freq, x)
					d = emit(0, true, 22, int64(x))
				default:
					got := v.Op(23, 0, 0)
					d = emit(got, true, 23, got)
					minf := 0
					for _, f := range ref.freq {
						if minf == 0 || f < minf {
							minf = f
						}
					}
					if len(ref.freq) == 0 {
						if got != 0 {
							bad("C09", fmt.Sprintf("removeLFU returned %d from an empty structure", got))
						}
					} else if f, ok := ref.freq[int(got)]; !ok || f != minf {
						bad("C09", fmt.Sprintf("removeLFU returned %d (frequency %d), the minimum frequency is %d (%v)", got, f, minf, ref.freq))
					}
					if got != 0 {
						unlink = true
					}
					delete(ref.freq, int(got))
				}
				if len(ref.freq) > maxLinked {
					maxLinked = len(ref.freq)
				}
				// the ring, read from the dump: ascending buckets holding exactly the reference frequencies
				seen := map[int]int{}
				okRing := true
				last := int64(0)
				j := 0
				var fw []int64
				for ; j < len(d) && d[j] != -2; j++ {
					if d[j] == -1 {
						okRing = false
						break
					}
					f, cnt := d[j], int(d[j+1])
					if f <= last || cnt == 0 || j+1+cnt >= len(d) {
						okRing = false
						break
					}
					last = f
					fw = append(fw, f)
					for c := 0; c < cnt; c++ {
						seen[int(d[j+2+c])] = int(f)
					}
					j += 1 + cnt
				}
				for ; j < len(d) && d[j] != -2; j++ {
				}
				var bw []int64
				for j++; j < len(d) && d[j] != -3; j++ {
					bw = append(bw, d[j])
				}
				if okRing {
					if len(seen) != len(ref.freq) || len(bw) != len(fw) {
						okRing = false
					}
					for it, f := range ref.freq {
						if seen[it] != f {
							okRing = false
						}
					}
					for i2 := range bw {
						if i2 < len(fw) && bw[i2] != fw[len(fw)-1-i2] {
							okRing = false
						}
					}
				}
				if !okRing {
					bad("C11", fmt.Sprintf("LFU ring corrupted: dump %v, reference frequencies %v", d, ref.freq))
					bad("C09", fmt.Sprintf("LFU buckets do not hold the entries at 1 + reads since the last write: dump %v, reference %v", d, ref.freq))
					bad("C10", fmt.Sprintf("LFU buckets disagree with the resident set: dump %v, reference %v", d, ref.freq))
					ref.freq = seen
				}
			}
		}
		m.count(fmt.Sprintf("mode%d", mode))
		if rogue {
			m.count("off-protocol")
		}
		if maxLinked >= 3 && unlink {
			m.nontrivial(fmt.Sprintf("m%d-n%d-l%d-%d", mode, n, maxLinked, nops/10))
		}
	}
	w.Close()
	m.Traces, m.Ops = w.traces, w.ops
	m.write(o.out)
}
