//go:build verif

package main

import (
	"fmt"
	"go/ast"
	"go/parser"
	"go/token"
	"path/filepath"
	"sort"
	"strings"
)

// genKindTable prints coq/Gen/KindTable.v: the reflect.Kind -> hasher table of
// keyhash.New, read from the source with go/ast (T-gen for C18).
// Each row: kind name, hasher (1 string, 2 integer, 3 fallback), width in bits, signed.
func genKindTable(repo string) {
	fset := token.NewFileSet()
	f, err := parser.ParseFile(fset, filepath.Join(repo, "internal", "keyhash", "hasher.go"), nil, 0)
	must(err)
	type row struct {
		kind, fn, typ string
	}
	var rows []row
	hasDefault := ""
	ast.Inspect(f, func(n ast.Node) bool {
		fd, ok := n.(*ast.FuncDecl)
		if !ok || fd.Name.Name != "New" {
			return true
		}
		ast.Inspect(fd.Body, func(n ast.Node) bool {
			cc, ok := n.(*ast.CaseClause)
			if !ok {
				return true
			}
			fn, typ := "", ""
			for _, st := range cc.Body {
				as, ok := st.(*ast.AssignStmt)
				if !ok || len(as.Rhs) != 1 {
					continue
				}
				switch e := as.Rhs[0].(type) {
				case *ast.IndexExpr:
					fn = fmt.Sprint(e.X)
				case *ast.IndexListExpr:
					fn = fmt.Sprint(e.X)
					if len(e.Indices) == 2 {
						typ = fmt.Sprint(e.Indices[1])
					}
				}
			}
			if cc.List == nil {
				hasDefault = fn
				return true
			}
			for _, k := range cc.List {
				if se, ok := k.(*ast.SelectorExpr); ok {
					rows = append(rows, row{se.Sel.Name, fn, typ})
				}
			}
			return true
		})
		return false
	})
	sort.Slice(rows, func(i, j int) bool { return rows[i].kind < rows[j].kind })
	width := func(t string) (int, int) { // bits, signed
		signed := 0
		if strings.HasPrefix(t, "int") {
			signed = 1
		}
		switch strings.TrimLeft(t, "uint") {
		case "8":
			return 8, signed
		case "16":
			return 16, signed
		case "32":
			return 32, signed
		case "64":
			return 64, signed
		case "", "ptr":
			return 64, signed // int, uint, uintptr on the 64-bit targets this check runs on
		}
		return 0, signed
	}
	hid := func(fn string) int {
		switch fn {
		case "hashStringKey":
			return 1
		case "hashIntKey":
			return 2
		case "hashFallbackKey":
			return 3
		}
		return 0
	}
	fmt.Println("(* GENERATED from /repo/internal/keyhash/hasher.go by `harness kindtable`. Do not edit. *)")
	fmt.Println("From Coq Require Import ZArith List String.")
	fmt.Println("Import ListNotations. Open Scope Z_scope. Open Scope string_scope.")
	fmt.Println("(* (kind, hasher: 1 string 2 integer 3 fallback, read type, read width in bits, read signed) *)")
	fmt.Println("Definition kind_table : list (string * Z * string * Z * Z) := [")
	for i, r := range rows {
		w, s := width(r.typ)
		if hid(r.fn) != 2 {
			w, s = 0, 0
		}
		sep := ";"
		if i == len(rows)-1 {
			sep = ""
		}
		fmt.Printf("  (\"%s\", %d, \"%s\", %d, %d)%s\n", r.kind, hid(r.fn), r.typ, w, s, sep)
	}
	fmt.Println("].")
	fmt.Printf("Definition kind_default : Z := %d.\n", hid(hasDefault))
}
