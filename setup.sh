#!/bin/sh
# One-time offline build of the framework: harness (from /repo, hooks on), generated Coq
# files, full Coq build (.vo), extraction, OCaml driver.
set -e
cd "$(dirname "$0")"
export GOFLAGS=-mod=mod GOPROXY=off
unset GOTOOLCHAIN GOSUMDB || true
mkdir -p build out evidence
cp ${VERIF_REPO:-/repo}/go.sum harness/go.sum 2>/dev/null || true
sed -i "s#=> .*#=> ${VERIF_REPO:-/repo}#" harness/go.mod
(cd harness && go build -tags verif -o ../build/harness .)
./build/harness consts > build/Consts.v && { cmp -s build/Consts.v coq/Gen/Consts.v || cp build/Consts.v coq/Gen/Consts.v; }
./build/harness kindtable ${VERIF_REPO:-/repo} > build/KindTable.v && { cmp -s build/KindTable.v coq/Gen/KindTable.v || cp build/KindTable.v coq/Gen/KindTable.v; }
(cd coq && rm -f Makefile Makefile.conf && ./build.sh)
(cd ocaml && ./build.sh)
echo setup ok
