#!/bin/sh
# build the replay driver from the extracted model (coq/model.ml, produced by coq/Extract.v)
set -e
cd "$(dirname "$0")"
mkdir -p extracted
cp ../coq/model.ml ../coq/model.mli driver.ml extracted/
cd extracted
ocamlfind ocamlopt -O2 -w -a -o ../driver model.mli model.ml driver.ml 2>/dev/null || ocamlfind ocamlopt -w -a -o ../driver model.mli model.ml driver.ml
