(* driver.ml — generic replay driver for the extracted Coq models.
   Input (file argv[1]):  "T sid cfg..." starts a trace, "O ints..." is one operation.
   Output (stdout):       "T" per trace, then one "R ints..." line per operation.
   All integers are decimal, arbitrary size; conversion to Coq's inductive Z is done here. *)
open Model

let rec pos_of_int n =
  if n = 1 then XH
  else if n land 1 = 0 then XO (pos_of_int (n lsr 1))
  else XI (pos_of_int (n lsr 1))

let z_of_int n =
  if n = 0 then Z0 else if n > 0 then Zpos (pos_of_int n) else Zneg (pos_of_int (-n))

let billion = z_of_int 1_000_000_000

(* decimal string (optional leading '-') to Z, in chunks of 9 digits *)
let z_of_string s =
  let neg = String.length s > 0 && s.[0] = '-' in
  let s = if neg then String.sub s 1 (String.length s - 1) else s in
  let n = String.length s in
  if n = 0 then failwith "empty integer";
  String.iter (fun c -> if c < '0' || c > '9' then failwith ("bad integer " ^ s)) s;
  let acc = ref Z0 in
  let first = n mod 9 in
  let pos = ref 0 in
  if first > 0 then begin acc := z_of_int (int_of_string (String.sub s 0 first)); pos := first end;
  while !pos < n do
    let chunk = int_of_string (String.sub s !pos 9) in
    acc := drv_add (drv_mul !acc billion) (z_of_int chunk);
    pos := !pos + 9
  done;
  match !acc with
  | Z0 -> Z0
  | Zpos p -> if neg then Zneg p else Zpos p
  | Zneg p -> Zneg p

(* positive to OCaml int when it fits in 61 bits *)
let small_of_pos p =
  let rec go p bit acc =
    if bit > 60 then None
    else match p with
      | XH -> Some (acc lor (1 lsl bit))
      | XO q -> go q (bit + 1) acc
      | XI q -> go q (bit + 1) (acc lor (1 lsl bit))
  in go p 0 0

let rec string_of_pos_big p =
  (* p is large: peel 9 decimal digits at a time *)
  let (q, r) = drv_divmod (Zpos p) billion in
  let r = match r with Z0 -> 0 | Zpos rp -> (match small_of_pos rp with Some v -> v | None -> assert false) | Zneg _ -> assert false in
  match q with
  | Z0 -> string_of_int r
  | Zpos qp ->
    (match small_of_pos qp with
     | Some v -> Printf.sprintf "%d%09d" v r
     | None -> Printf.sprintf "%s%09d" (string_of_pos_big qp) r)
  | Zneg _ -> assert false

let string_of_pos p =
  match small_of_pos p with Some v -> string_of_int v | None -> string_of_pos_big p

let string_of_z = function
  | Z0 -> "0"
  | Zpos p -> string_of_pos p
  | Zneg p -> "-" ^ string_of_pos p

let tokens line =
  List.filter (fun s -> s <> "") (String.split_on_char ' ' (String.trim line))

let flush_trace hdr ops =
  match hdr with
  | None -> ()
  | Some (sid, cfg) ->
    let outs = run_stream sid cfg (List.rev ops) in
    print_string "T\n";
    List.iter (fun o ->
        print_string "R";
        List.iter (fun z -> print_char ' '; print_string (string_of_z z)) o;
        print_char '\n') outs

let () =
  let ic = open_in Sys.argv.(1) in
  let hdr = ref None and ops = ref [] in
  (try
     while true do
       let line = input_line ic in
       match tokens line with
       | [] -> ()
       | "T" :: sid :: cfg ->
         flush_trace !hdr !ops;
         hdr := Some (z_of_string sid, List.map z_of_string cfg); ops := []
       | "O" :: args -> ops := List.map z_of_string args :: !ops
       | t :: _ -> failwith ("bad line tag " ^ t)
     done
   with End_of_file -> ());
  flush_trace !hdr !ops;
  close_in ic
